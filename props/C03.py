"""C03 - expression parse trees encode Fortran precedence and associativity.

Model X: operator trees over all intrinsic and defined operators, rendered
with exactly the parentheses the standard's expression grammar (R702-R722)
requires; the grouping is known by construction.
"""
import itertools
from mc.base import try_parse, h64, parser_for
from mc.runner import Result

ID = "C03"
RULE = (
    "model X: EVERY operator tree with <= N operator nodes (all shapes, unary and binary) over the "
    "operator alphabet (quick: one representative per precedence class plus both relational "
    "spellings for N=3, all 27 operator symbols for N<=2; thorough: all symbols for N=3, class "
    "representatives for N=4 and chains for N=5), each rendered with the minimal parentheses the "
    "grammar requires (a looser operand appears only as '( expr )'), with and without blanks around "
    "operators, every leaf position ranging over the operand alphabet for small trees; parsed as "
    "Fortran2003.Expr and as the right-hand side of an assignment in a program, both standards. "
    "Oracle: full parenthesisation of the parse == that of the derivation, explicit parentheses "
    "retained at the same places. Non-trivial = tree with >= 2 operators."
)
ASSUMPTIONS = ["precedence table below follows F2003 R702-R722", "type correctness is irrelevant to the grammar and not modelled"]
BOUNDS = {"quick": dict(n_reps=3, n_all=2, leaf_n=2), "thorough": dict(n_reps=4, n_all=3, leaf_n=2, chain=5)}

# (symbol, class, arity, result level, left min level, right min level)
# levels: 1 expr(defined binary) 2 equiv 3 or 4 and 5 not 6 rel 7 concat 8 add
#         9 mult 10 power 11 defined unary 12 primary
OPS = []


def _op(sym, cls, arity, lvl, lmin, rmin):
    OPS.append((sym, cls, arity, lvl, lmin, rmin))


_op("**", "pow", 2, 10, 11, 10)
_op("*", "mul", 2, 9, 9, 10)
_op("/", "mul", 2, 9, 9, 10)
_op("+", "add", 2, 8, 8, 9)
_op("-", "add", 2, 8, 8, 9)
_op("u+", "uadd", 1, 8, None, 9)
_op("u-", "uadd", 1, 8, None, 9)
_op("//", "cat", 2, 7, 7, 8)
for r in ["==", ".eq.", "/=", ".ne.", "<", ".lt.", "<=", ".le.", ">", ".gt.", ">=", ".ge."]:
    _op(r, "rel", 2, 6, 7, 7)
_op(".not.", "not", 1, 5, None, 6)
_op(".and.", "and", 2, 4, 4, 5)
_op(".or.", "or", 2, 3, 3, 4)
_op(".eqv.", "eqv", 2, 2, 2, 3)
_op(".neqv.", "eqv", 2, 2, 2, 3)
_op(".myop.", "dbin", 2, 1, 1, 2)
_op(".inv.", "dun", 1, 11, None, 12)
OPMAP = {o[0]: o for o in OPS}
REPS = ["**", "*", "+", "u-", "//", "==", ".le.", ".not.", ".and.", ".or.", ".eqv.", ".myop.", ".inv.", "/"]
# n2d, x1e, u3D: NAMES that end like the mantissa + exponent letter of a real literal
# (round 8: a look-behind on the sign pattern took the '-' of 'n2d-7' for an exponent sign)
LEAVES = ["a", "a(i)", "f(x, y)", "a%b", "1.0e-3", "2.5D+4", "3", ".true.", "'s'", "(/1, 2/)", "n2d", "x1e", "u3D"]
NAMES = ["a", "b", "c", "d", "e", "g"]


def trees(nops, syms):
    """all operator trees with exactly nops operator nodes; leaves are None"""
    if nops == 0:
        yield None
        return
    for sym in syms:
        arity = OPMAP[sym][2]
        if arity == 1:
            for t in trees(nops - 1, syms):
                yield (sym, t)
        else:
            for k in range(nops):
                for l in trees(k, syms):
                    for r in trees(nops - 1 - k, syms):
                        yield (sym, l, r)


def trees_rooted(nops, syms, root):
    """trees with exactly nops operator nodes whose root operator is `root`"""
    arity = OPMAP[root][2]
    if arity == 1:
        for t in trees(nops - 1, syms):
            yield (root, t)
    else:
        for k in range(nops):
            for l in trees(k, syms):
                for r in trees(nops - 1 - k, syms):
                    yield (root, l, r)


def fill(tree, leaves):
    """replace None leaves by the given leaf texts (in order)"""
    it = iter(leaves)

    def rec(t):
        if t is None:
            return ("leaf", next(it))
        if len(t) == 2:
            return (t[0], rec(t[1]))
        return (t[0], rec(t[1]), rec(t[2]))

    return rec(tree)


def nleaves(t):
    if t is None:
        return 1
    return sum(nleaves(c) for c in t[1:])


def level(t):
    if t[0] == "leaf":
        return 12
    return OPMAP[t[0]][3]


def render(t, need, blanks):
    """text with minimal parentheses; returns (text, fp) where fp is the
    ground-truth full parenthesisation ('[..]' marks explicit parentheses)"""
    if t[0] == "leaf":
        return t[1], norm_leaf(t[1])
    sym, cls, arity, lvl, lmin, rmin = OPMAP[t[0]]
    shown = sym[1:] if sym in ("u+", "u-") else sym
    sp = " " if blanks else ""
    if arity == 1:
        x, fx = render(t[1], rmin, blanks)
        # a blank is needed between two dotted tokens only for readability;
        # '.not..inv.a' is legal, keep it when blanks are off
        text = _glue(shown, x, sp if shown[0] == "." else "")
        fp = "(%s%s)" % (shown.lower(), fx)
    else:
        l, fl = render(t[1], lmin, blanks)
        r, fr = render(t[2], rmin, blanks)
        text = _glue(_glue(l, shown, sp), r, sp)
        fp = "(%s%s%s)" % (fl, shown.lower(), fr)
    if lvl < need:
        return "(" + text + ")", "[" + fp + "]"
    return text, fp


def _glue(x, y, sp):
    """concatenate two rendered pieces; when blanks are off a blank is still
    kept where a '.'-delimited token would touch another '.'-token or a
    numeric literal ('.true..myop.b', '.inv.1.0e-3'): that is a lexical
    adjacency question, not a precedence one, and outside model X"""
    if not sp and x.endswith(".") and (y[:1] == "." or y[:1].isdigit()):
        return x + " " + y
    return x + sp + y


def norm_leaf(s):
    return s.replace(" ", "").lower()


def fp_of_node(n):
    """full parenthesisation of an fparser expression node"""
    from fparser.two.utils import BinaryOpBase, UnaryOpBase
    from fparser.two import Fortran2003 as F

    if isinstance(n, F.Parenthesis):
        return "[" + fp_of_node(n.items[1]) + "]"
    if isinstance(n, (F.Mult_Operand, F.Add_Operand, F.Level_2_Expr, F.Level_3_Expr, F.Level_4_Expr, F.Or_Operand, F.Equiv_Operand, F.Level_5_Expr, F.Expr)):
        return "(%s%s%s)" % (fp_of_node(n.items[0]), str(n.items[1]).replace(" ", "").lower(), fp_of_node(n.items[2]))
    if isinstance(n, (F.Level_1_Expr, F.Level_2_Unary_Expr, F.And_Operand)):
        return "(%s%s)" % (str(n.items[0]).replace(" ", "").lower(), fp_of_node(n.items[1]))
    return norm_leaf(str(n))


def features(t):
    """model-level features used in violation signatures"""
    feats = set()

    def dotted(t):
        if t[0] == "leaf":
            return t[1].startswith(".")
        if t[0].startswith("."):
            return True
        return False

    def rec(t, top=True):
        if t[0] == "leaf":
            return
        sym, cls = t[0], OPMAP[t[0]][1]
        if cls == "dbin":
            # does the un-parenthesised right operand contain a dotted token?
            r = t[2]

            def has_dot(u, need):
                if u[0] == "leaf":
                    return u[1].startswith(".")
                if OPMAP[u[0]][3] < need:
                    return False  # parenthesised
                if u[0].startswith("."):
                    return True
                s, c, ar, lv, lm, rm = OPMAP[u[0]]
                if ar == 1:
                    return has_dot(u[1], rm)
                return has_dot(u[1], lm) or has_dot(u[2], rm)

            if has_dot(r, OPMAP[sym][5]):
                feats.add("dbin-rhs-dotted")
            l = t[1]
            if l[0] != "leaf" and OPMAP[l[0]][1] == "dbin":
                feats.add("dbin-chain")
        for c in t[1:]:
            rec(c, False)

    rec(t)
    return feats


def classes_of(t):
    if t[0] == "leaf":
        return []
    out = [OPMAP[t[0]][1]]
    for c in t[1:]:
        out += classes_of(c)
    return out


def judge_text(text, want_fp, std, mode):
    from fparser.two import Fortran2003 as F

    parser_for(std)
    if mode == "expr":
        try:
            node = F.Expr(text)
        except BaseException as e:
            return "rejected:" + type(e).__name__, str(e)[:150]
    else:
        src = " subroutine s\n  x = %s\n end subroutine s\n" % text
        o = try_parse(src, std)
        if not o.ok:
            return "rejected:" + o.exc_type, (o.msg or "")[:150]
        from mc.base import walk

        a = walk(o.tree, F.Assignment_Stmt)
        if len(a) != 1:
            return "no-assignment", repr(o.tree)[:200]
        node = a[0].items[2]
    got = fp_of_node(node)
    if got != want_fp:
        return "grouping", "parse groups as  %s\nderivation is    %s\ntree: %r" % (got, want_fp, node)
    return None, None


def plan(tier, seed):
    b = BOUNDS[tier]
    allsyms = [o[0] for o in OPS]
    tasks = []
    # trees over representatives, split by root symbol
    for n in range(1, b["n_reps"] + 1):
        for root in REPS:
            nsh = 8 if n >= 4 else 1
            for sh in range(nsh):
                tasks.append(("T", "reps", n, root, sh, nsh))
    for n in range(1, b["n_all"] + 1):
        for root in allsyms:
            nsh = 4 if n >= 3 else 1
            for sh in range(nsh):
                tasks.append(("T", "all", n, root, sh, nsh))
    for root in REPS:
        tasks.append(("L", b["leaf_n"], root))
    if "chain" in b:
        for first in [s_ for s_ in REPS if OPMAP[s_][2] == 2]:
            for second in [s_ for s_ in REPS if OPMAP[s_][2] == 2]:
                tasks.append(("C", b["chain"], first, second))
    return tasks


def gen(task):
    """yield (tree-with-leaves) for a task"""
    allsyms = [o[0] for o in OPS]
    if task[0] == "T":
        _, which, n, root, shard, nshards = task
        syms = REPS if which == "reps" else allsyms
        idx = 0
        for t in trees_rooted(n, syms, root):
            idx += 1
            if idx % nshards != shard:
                continue
            yield fill(t, NAMES[: nleaves(t)] if nleaves(t) <= len(NAMES) else [NAMES[i % len(NAMES)] for i in range(nleaves(t))])
    elif task[0] == "L":
        _, n, root = task
        for k in range(1, n + 1):
            for t in trees(k, REPS):
                if t[0] != root:
                    continue
                nl = nleaves(t)
                for pos in range(nl):
                    for leaf in LEAVES[1:]:
                        leaves = NAMES[:nl]
                        leaves[pos] = leaf
                        yield fill(t, leaves)
                # exponent literals at every position together
                yield fill(t, ["1.0e-3", "2.5D+4", "3.e5", ".5"][:nl] if nl <= 4 else NAMES[:nl])
                # literal-lookalike names at every position together
                yield fill(t, ["n2d", "x1e", "e2", "d1"][:nl] if nl <= 4 else NAMES[:nl])
        # collisions: the SAME literal several times (placeholder numbering in
        # string_replace_map), a different one first
        for k in range(2, n + 2):
            for t in trees(k, REPS):
                if t[0] != root:
                    continue
                nl = nleaves(t)
                for pat in (["1e-5", "2e0", "2e0", "1e-5", "2e0"], ["2.5d+2", "a", "1.0e-3", "1.0e-3", "b"], ["'x-y'", "'p q'", "'p q'", "'x-y'", "s"]):
                    yield fill(t, pat[:nl])
    elif task[0] == "C":
        n = task[1]
        bins = [s for s in REPS if OPMAP[s][2] == 2]
        for rest in itertools.product(bins, repeat=n - 2):
            ops = (task[2], task[3]) + rest
            # left-leaning, right-leaning chains
            t = None
            for i, o in enumerate(ops):
                t = (o, t, None) if i else (o, None, None)
            yield fill(t, [NAMES[i % 6] for i in range(nleaves(t))])
            t = None
            for i, o in enumerate(reversed(ops)):
                t = (o, None, t) if i else (o, None, None)
            yield fill(t, [NAMES[i % 6] for i in range(nleaves(t))])


def sig(kind, t, mode):
    f = sorted(features(t))
    if not f:
        f = ["|".join(sorted(set(classes_of(t))))]
    return "C03|%s|%s|%s" % (kind, ",".join(f), mode)


def run(task):
    res = Result()
    cnt = 0
    for t in gen(task):
        cnt += 1
        for blanks in (True, False):
            text, want = render(t, 1, blanks)
            res.transitions += 1
            hk = h64(text)
            res.states.add(hk)
            if len(classes_of(t)) >= 2:
                res.nontrivial.add(hk)
            for mode, std in (("expr", "f2003"), ("expr", "f2008"), ("stmt", "f2008")) if blanks else (("expr", "f2003"), ("stmt", "f2003")):
                res.evals += 1
                kind, detail = judge_text(text, want, std, mode)
                res.outcomes[kind or "ok"] += 1
                if kind is None:
                    res.results.add(h64(want))
                else:
                    res.violation(sig(kind, t, mode), "expression %r (%s, %s)\n%s" % (text, mode, std, detail), {"text": text, "want": want, "std": std, "mode": mode, "sig": sig(kind, t, mode).split("|", 2)[2]}, cost=len(text))
        if cnt % 500 == 1:
            res.sample({"expression": render(t, 1, True)[0], "full_parenthesisation": render(t, 1, True)[1]})
    return res


def replay(case):
    kind, detail = judge_text(case["text"], case["want"], case["std"], case["mode"])
    return [{"sig": "C03|%s|%s" % (kind, case["sig"]), "detail": detail}] if kind else []
