"""C12 - the reader delivers each logical line once, in order, with exact
line numbers; put-back + re-read returns the same item."""
import os
import shutil
import tempfile
from mc import corpus, layout, explore, stream
from mc import grammar as G
from mc.base import h64, FortranStringReader, FortranFileReader
from mc.runner import Result
from fparser.common import readfortran as rf

ID = "C12"
RULE = (
    "(a) streams: every layout with <= k deviations (layout model R) of every corpus program, and of "
    "every fixed-form rendering, read with comments kept and ignored; delivered items == model S "
    "(tokens via lexer L, label, construct name, exact (first,last) span, comment order). "
    "(b) E2 explicit-state search over reader operations {get, put(last outstanding), commit}: every "
    "operation sequence up to length L on every stream of a catalogue chosen to hit every buffer "
    "interaction (comment queued inside a continuation, ';' parts, include boundary both ways, CPP "
    "items, fixed form); every get is compared with the stream model (same OBJECT after a put-back), "
    "the reader is drained after every sequence and compared with the model's remainder. states = "
    "distinct canonical reader-buffer states, transitions = operations applied."
)
ASSUMPTIONS = [
    "the expected item list of an op-sequence stream is the list a fresh reader delivers when simply drained; part (a) ties that list to the layout model",
    "consumers respect the LIFO put-back discipline fparser2 itself uses",
]
BOUNDS = {"quick": dict(layout_k=1, seq_len=11, shards=4), "thorough": dict(layout_k=1, seq_len=14, shards=8, styles="full")}

INC1 = " x = 1\n y = 2 ! in include\n"
INC2 = " include 'inc1.inc'\n z = 3\n"

# name -> (kind, text); kind: 'str' string reader, 'file' file reader (text
# written to a temp file), include files available in the temp dir
STREAMS = {
    "plain": ("str", "program p\n  a = 1\n  b = 2\n  c = 3\nend program p\n"),
    "cont-comment": ("str", " subroutine s\n  a = 1 + &\n  ! inner comment\n  & 2 ! trail\n  b = 2\n end\n"),
    "cont-two-comments": ("str", " subroutine s\n  call f(a, & ! c1\n\n ! c2\n   b, &\n   c)\n  ! after\n end\n"),
    "semicolon3": ("str", " subroutine s\n  a = 1; b = 2; c = 3\n  d = 4\n end\n"),
    "semicolon-labels": ("str", " subroutine s\n  nm: do i = 1, 2; a = i; end do nm\n  10 continue; x = 'a;b'\n end\n"),
    "semicolon-comment": ("str", " subroutine s\n  a = 1; b = & ! c\n   2; c = 3 ! t\n end\n"),
    "labels-names": ("str", " subroutine s\n 10 a = 1\n  nm: if (a) then\n  20 continue\n  end if nm\n end\n"),
    "blank-lines": ("str", "\n\n program p\n\n  a = 1\n\n\n end\n\n"),
    "comments-only-gaps": ("str", "! head\n program p\n ! c1\n ! c2\n  a = 1 ! t1\n ! c3\n end\n! tail\n"),
    "cpp": ("str", "#define X 1\n program p\n#if defined(A) && \\\n  defined(B)\n  a = 1\n#endif\n end\n"),
    "cpp-comment": ("str", " program p\n  ! c\n#ifdef X\n  a = 1 ! t\n#else\n  a = 2\n#endif\n end\n"),
    "literal-cont": ("str", " program p\n  s = 'ab&\n   &cd' // \"x!y\" ! real comment\n  t = 'it''s'\n end\n"),
    "include-str": ("strinc", " program p\n  a = 0\n  include 'inc1.inc'\n  b = 9\n end\n"),
    "include-nested": ("strinc", " program p\n  include 'inc2.inc'\n  b = 9\n end\n"),
    "include-file": ("file", " program p\n  a = 0\n  include 'inc1.inc'\n  b = 9\n end\n"),
    "include-first-last": ("strinc", " include 'inc1.inc'\n include 'inc1.inc'\n"),
    "include-missing": ("str", " program p\n  include 'nope.inc'\n  b = 9\n end\n"),
    "fixed": ("str", "      program p\nC comment\n      a = 1 +\n     &    2\n*  star\n   10 continue\n      b = 2\n      end\n"),
    "fixed-cont-comment": ("str", "      subroutine s\n      call f(a,\nc inner\n     1   b,\n! bang\n     2   c)\n      end\n"),
    "fixed-semicolon": ("str", "      subroutine s\n      a = 1; b = 2\n      s = 'a;b'\n      end\n"),
    "omp-sentinel": ("stromp", " program p\n !$ a = 1\n !$ b = 2 &\n !$  & + 3\n !$omp parallel\n end\n"),
    "empty": ("str", "\n"),
    "one": ("str", " end\n"),
}


def make_reader(name, ic, tmp):
    kind, text = STREAMS[name]
    if kind == "str":
        return FortranStringReader(text, ignore_comments=ic)
    if kind == "stromp":
        return FortranStringReader(text, ignore_comments=ic, include_omp_conditional_lines=True)
    if kind == "strinc":
        return FortranStringReader(text, ignore_comments=ic, include_dirs=[tmp])
    path = os.path.join(tmp, "main_%s.f90" % name)
    if not os.path.exists(path):
        with open(path, "w") as f:
            f.write(text)
    return FortranFileReader(path, ignore_comments=ic, include_dirs=[tmp])


def describe(it):
    if it is None:
        return None
    if isinstance(it, rf.Comment):
        return ("Comment", it.comment, tuple(it.span))
    return (type(it).__name__, it.line, tuple(it.span), it.label, it.name)


def state_key(r):
    """canonical key of the real reader's buffers"""
    chain = []
    while r is not None:
        chain.append((r.linecount, tuple(describe(i) for i in r.fifo_item), tuple(r.filo_line), r.isclosed))
        r = r.reader
    return tuple(chain)


def op_sequences(L):
    """all sequences over g(et), p(ut), c(ommit) of length <= L respecting
    the discipline: put/commit need an outstanding item; canonical: no
    commit directly after commit."""
    out = []

    def rec(seq, outstanding):
        out.append(seq)
        if len(seq) == L:
            return
        rec(seq + "g", outstanding + 1)
        if outstanding:
            rec(seq + "p", outstanding - 1)
            rec(seq + "c", 0)

    rec("", 0)
    return out


def run_sequence(name, ic, tmp, seq, expected):
    """apply seq on a fresh reader; returns (violation or None, states, nops)"""
    r = make_reader(name, ic, tmp)
    cursor = 0
    outstanding = []  # (index, object)
    putback = {}  # index -> object that was put back and must come again
    states = set()
    states.add(h64(repr(state_key(r))))
    n = 0
    for k, op in enumerate(seq):
        n += 1
        if op == "g":
            it = r.get_item()
            want = expected[cursor] if cursor < len(expected) else None
            if describe(it) != want:
                return ("get-mismatch", "after %r: get returned %r, model %r" % (seq[:k], describe(it), want)), states, n
            if cursor in putback and it is not putback[cursor]:
                return ("get-not-same-object", "after %r: item %r re-read after put-back is a different object" % (seq[:k], describe(it))), states, n
            putback.pop(cursor, None)
            if it is not None:
                outstanding.append((cursor, it))
                cursor += 1
            if it is not None and not isinstance(it, rf.Comment):
                if r.linecount < it.span[1] and r.reader is None and False:
                    return ("linecount", "linecount %d below consumed line %d" % (r.linecount, it.span[1])), states, n
        elif op == "p":
            if not outstanding:
                continue  # the stream had ended: nothing to put back
            idx, it = outstanding.pop()
            r.put_item(it)
            putback[idx] = it
            cursor = idx
        else:
            outstanding = []
        states.add(h64(repr(state_key(r))))
    # drain
    rest = []
    while True:
        it = r.get_item()
        if it is None:
            break
        rest.append(describe(it))
        if len(rest) > len(expected) + 5:
            break
    if rest != expected[cursor:]:
        return ("drain-mismatch", "after %r the remaining stream is %r, model %r" % (seq, rest, expected[cursor:])), states, n
    return None, states, n


def expected_items(name, ic, tmp):
    r = make_reader(name, ic, tmp)
    out = []
    while True:
        it = r.get_item()
        if it is None:
            break
        out.append(describe(it))
    return out


def plan(tier, seed):
    tasks = []
    b = BOUNDS[tier]
    for name in STREAMS:
        for ic in (True, False):
            tasks.append(("ops", name, ic, b["seq_len"]))
    for pid in sorted(corpus.corpus()):
        for sh in range(b["shards"]):
            tasks.append(("lay", tier, pid, sh, b["shards"]))
    for name, prog, only in layout.focus_programs():
        for sh in range(b["shards"]):
            tasks.append(("lay", tier, "F/" + name, sh, b["shards"]))
    # fixed-form renderings (model R, fixed renderer) of the focus programs
    for name, prog, only in layout.focus_programs():
        for sh in range(4):
            tasks.append(("fix", tier, "F/" + name, sh, 4))
    return tasks


def run_ops(task):
    _, name, ic, L = task
    res = Result()
    tmp = tempfile.mkdtemp(prefix="c12_")
    try:
        with open(os.path.join(tmp, "inc1.inc"), "w") as f:
            f.write(INC1)
        with open(os.path.join(tmp, "inc2.inc"), "w") as f:
            f.write(INC2)
        expected = expected_items(name, ic, tmp)
        res.extra["coverage"] = {}
        for seq in op_sequences(L):
            res.evals += 1
            v, states, n = run_sequence(name, ic, tmp, seq, expected)
            res.transitions += n
            res.states |= states
            res.nontrivial.add(h64(name, str(ic), seq))
            res.outcomes["ok" if v is None else v[0]] += 1
            res.results.add(h64(name, str(ic), str(len(expected))))
            if v:
                res.violation("C12|ops:%s|%s|ic=%s" % (v[0], name, ic), "stream %s ignore_comments=%s ops=%s\n%s\n--- source:\n%s" % (name, ic, seq, v[1], STREAMS[name][1]), {"mode": "ops", "name": name, "ic": ic, "seq": seq}, cost=len(seq))
        res.sample({"stream": name, "ignore_comments": ic, "ops": "ggpgpc...", "expected_items": [list(map(str, e)) for e in expected[:6]]})
    finally:
        shutil.rmtree(tmp, ignore_errors=True)
    return res


def judge_layout(lay):
    out = []
    fold = any(f.startswith("case") for f in lay.features)
    if "case3" in lay.features:
        fold = "all"
    for ic in (True, False):
        try:
            r, items = stream.read_all(lay.text, ignore_comments=ic)
        except BaseException as e:
            out.append(("raises:" + type(e).__name__, repr(e)[:200]))
            continue
        k, d = stream.check_items(lay, items, ic, fold=fold)
        if k:
            out.append(("ic%d:%s" % (ic, k), d))
    return out


def lay_sig(kind, feats):
    return "C12|stream:%s|%s" % (kind, ",".join(sorted(f for f in feats if not f.startswith("case"))) or "canonical")


def run_lay(task):
    _, tier, pid, shard, nshards = task
    res = Result()
    prog, opts, kk = _lay_setup(tier, pid)
    stats = {}
    n = 0
    for vec, ch, lay in explore.explore(lambda ch: layout.render_free(prog, ch, opts), kk, stats):
        n += 1
        if n % nshards != shard:
            continue
        res.evals += 1
        hk = h64(lay.text)
        res.states.add(hk)
        if vec:
            res.nontrivial.add(hk)
        vs = judge_layout(lay)
        res.outcomes["ok" if not vs else vs[0][0]] += 1
        res.results.add(hk)
        for kind, d in vs:
            res.violation(lay_sig(kind, lay.features), "%s vec=%s\n%s\n--- layout:\n%s" % (pid, list(vec), d, lay.text), {"mode": "lay", "tier": tier, "pid": pid, "vec": list(vec)}, cost=len(vec) * 100000 + len(lay.text))
        if res.evals % 500 == 1:
            res.sample({"program": pid, "vector": list(vec), "layout": lay.text})
    if shard == 0:
        res.transitions += stats.get("decisions", 0)
    return res


def judge_fixed(lay):
    out = []
    for ic in (True, False):
        try:
            r, items = stream.read_all(lay.text, ignore_comments=ic)
        except BaseException as e:
            out.append(("raises:" + type(e).__name__, repr(e)[:200]))
            continue
        if r.format.mode != "fix":
            return "not-fixed", []  # source-form detection is C05's subject
        k, d = stream.check_items(lay, items, ic)
        if k:
            out.append(("ic%d:%s" % (ic, k), d))
    return "ok", out


def fix_sig(kind, feats):
    return "C12|fixed-stream:%s|%s" % (kind, ",".join(sorted(feats)) or "canonical")


def run_fix(task):
    _, tier, pid, shard, nshards = task
    res = Result()
    name, prog, only = [f for f in layout.focus_programs() if "F/" + f[0] == pid][0]
    kk = 2 if tier == "quick" else 3
    stats = {}
    n = 0
    for vec, ch, lay in explore.explore(lambda ch: layout.render_fixed(prog, ch, {"only": only}), kk, stats):
        n += 1
        if n % nshards != shard:
            continue
        res.evals += 1
        hk = h64(lay.text, "fix")
        res.states.add(hk)
        if vec:
            res.nontrivial.add(hk)
        st, vs = judge_fixed(lay)
        if st != "ok":
            res.counters["fixed_rendering_not_detected_as_fixed"] += 1
            continue
        res.outcomes["fixed:" + ("ok" if not vs else vs[0][0])] += 1
        res.results.add(hk)
        for kind, d in vs:
            res.violation(fix_sig(kind, lay.features), "%s fixed form vec=%s\n%s\n--- layout:\n%s" % (pid, list(vec), d, lay.text), {"mode": "fix", "tier": tier, "pid": pid, "vec": list(vec)}, cost=len(vec) * 100000 + len(lay.text))
        if res.evals % 500 == 1:
            res.sample({"program": pid, "vector": list(vec), "fixed_layout": lay.text})
    if shard == 0:
        res.transitions += stats.get("decisions", 0)
    return res


def _lay_setup(tier, pid):
    if pid.startswith("F/"):
        name, prog, only = [f for f in layout.focus_programs() if "F/" + f[0] == pid][0]
        return prog, {"only": only, "styles": layout.STYLES_FOCUS, "case": False, "indents": False}, (2 if tier == "quick" else 3)
    prog = corpus.corpus()[pid]
    return prog, {"styles": layout.STYLES_FULL if BOUNDS[tier].get("styles") == "full" else layout.STYLES_QUICK}, BOUNDS[tier]["layout_k"]


def run(task):
    if task[0] == "fix":
        return run_fix(task)
    return run_ops(task) if task[0] == "ops" else run_lay(task)


def replay(case):
    if case["mode"] == "ops":
        tmp = tempfile.mkdtemp(prefix="c12_")
        try:
            with open(os.path.join(tmp, "inc1.inc"), "w") as f:
                f.write(INC1)
            with open(os.path.join(tmp, "inc2.inc"), "w") as f:
                f.write(INC2)
            expected = expected_items(case["name"], case["ic"], tmp)
            v, _, _ = run_sequence(case["name"], case["ic"], tmp, case["seq"], expected)
        finally:
            shutil.rmtree(tmp, ignore_errors=True)
        return [{"sig": "C12|ops:%s|%s|ic=%s" % (v[0], case["name"], case["ic"]), "detail": v[1]}] if v else []
    if case["mode"] == "fix":
        name, prog, only = [f for f in layout.focus_programs() if "F/" + f[0] == case["pid"]][0]
        ch, lay = explore.run(lambda ch: layout.render_fixed(prog, ch, {"only": only}), case["vec"])
        return [{"sig": fix_sig(k, lay.features), "detail": d} for k, d in judge_fixed(lay)[1]]
    prog, opts, kk = _lay_setup(case["tier"], case["pid"])
    ch, lay = explore.run(lambda ch: layout.render_free(prog, ch, opts), case["vec"])
    return [{"sig": lay_sig(k, lay.features), "detail": d} for k, d in judge_layout(lay)]
