"""C09 - a parse is a function of its input, not of earlier parses.

E2 fork-tree exploration over PROCESS-GLOBAL parser state: every history over
{create(f2003), create(f2008), parse(valid_i), parse(invalid_j)} up to the
length bound, each operation applied in a forked child of the exact state its
history reached.  Reference results come from genuinely fresh interpreters.
"""
import os
import sys
import json
import subprocess
from concurrent.futures import ThreadPoolExecutor
from mc import base
from mc.base import h64, canon, text_of, renumber_blocks
from mc.runner import Result
from mc import forktree

ID = "C09"
RULE = (
    "E2 fork-snapshot exploration: ALL histories of length <= L over the alphabet {create(f2003), "
    "create(f2008), parse(v1..v7), parse(i1..i6)} (sources chosen to collide: same unit names, an "
    "intrinsic name declared in one and referenced in another, anonymous main program, unnamed BLOCKs, "
    "F2008-only unit; failures at top level, inside nested scopes, inside an anonymous program, "
    "InternalSyntaxError with scopes open, second unit failing). Oracles at every node: (1) after "
    "create: no tables, no scope, registry == fresh interpreter's; (3) after a failing parse: no open "
    "scope and the table tree unchanged; (5) the outcome of parse(x) is a function of the model state "
    "H = (std, successful parses since create) - which contains (2) equality with the fresh-interpreter "
    "reference and (4) invisibility of failed parses. states = distinct canonical global states, "
    "transitions = operations applied in forked children."
)
ASSUMPTIONS = [
    "os.fork() gives every branch a bit-identical copy of the process state",
    "reference outcomes are computed in fresh interpreters (subprocess per (std, source))",
    "successful parses legitimately leave their symbol tables behind (the property only constrains create and failing parses)",
]
BOUNDS = {
    "quick": dict(length=4, note="12-op core alphabet to length 4; all 25 ops (22 string sources + two file-reader parses of one path (free-form, then overwritten in fixed form) + a source with an INCLUDE that must stay unresolved) to length 3; every create-parse-create-parse history over all sources"),
    "thorough": dict(length=5, note="all 19 ops to length 4; 9-op alphabet to length 5"),
}

SOURCES = {
    "v1": "program p\n integer :: sin(3)\n sin(1) = 1\nend program p\n",
    "v2": "program p\n x = sin(1.0)\nend program p\n",
    "v3": " x = cos(1.0)\n end\n",
    "v4": "program q\n block\n  integer :: i\n  i = 1\n end block\n block\n end block\nend program q\n",
    "v5": "submodule (m) p\ncontains\n subroutine sin()\n end subroutine sin\nend submodule p\n",
    "v6": "module p\n integer :: tan\ncontains\n subroutine s()\n  x = tan(1.0) + cos(2.0)\n end subroutine s\nend module p\n",
    "v7": "program p\n use mm, only: tan\n x = 1\nend program p\n",
    "v8": "program p\n open(unit=10, file='x', status='old')\n write(10, *) x\nend program p\n",
    "v9": "program p\n open(newunit=u, file='x')\n error stop\nend program p\n",
    "i1": "this is not fortran\n",
    "i2": "module p\ncontains\nsubroutine s\n integer :: sin\n nm: do i = 1, 2\n end do zz\nend subroutine s\nend module p\n",
    "i3": " integer :: cos\n x = = 1\n end\n",
    "i4": "program p\n integer :: cos\n x = sin(1, 2, 3)\nend program p\n",
    "i5": "module m2\n integer :: tan\nend module m2\nprogram p\n x = = 1\nend program p\n",
    "i6": "program p\n use mm, only: sin, cos\n x = = 1\nend program p\n",
}
# f1: a FILE parsed through FortranFileReader with default options (its directory
# holds c09_decls.inc); vA: a string source whose INCLUDE names that file - not on
# its own include path, so the line must stay an Include_Stmt whatever was parsed before
# i7 / i8: rejected sources that DECLARE a name shadowing an intrinsic and REFERENCE it
# before the error (named / anonymous main program); vB: valid, references COS in program p
SOURCES["i7"] = "program p\n real :: cos(3)\n y = cos(2)\n x = = 1\nend program p\n"
SOURCES["i8"] = " real :: cos(3)\n y = cos(2)\n x = = 1\n end\n"
SOURCES["vB"] = "program p\n y = cos(1.0)\nend program p\n"
SOURCES["f1"] = "@file:other.f90"
SOURCES["f2"] = "@file2:other.f90"  # the same path, overwritten with a fixed-form program
SOURCES["vA"] = "program p\n include 'c09_decls.inc'\n x = 1\nend program p\n"
_FILES = {"other.f90": "module other\n integer :: k\nend module other\n", "c09_decls.inc": " integer :: leaked_from_other_directory\n"}


def _files_dir():
    """directory holding the files of the file-reader operations.  One directory
    per history chain: it is created by the first process of a chain (the
    isolated child that replays a task's prefix, a reference interpreter, a
    replay) and inherited by the children forked from it, so that the same
    PATH is parsed again later in a history while concurrent chains never
    share a file."""
    import atexit, shutil, tempfile

    d = _state.get("fdir")
    if not d or not os.path.isdir(d):
        d = tempfile.mkdtemp(prefix="c09_files_")
        _state["fdir"] = d
        os.mkdir(os.path.join(d, "lib"))
        owner = os.getpid()
        atexit.register(lambda: os.getpid() == owner and shutil.rmtree(d, ignore_errors=True))
    return os.path.join(d, "lib")


def _write_files(which):
    """(re)write the files an operation parses: f1 = free-form module in
    other.f90; f2 = the SAME path holding a fixed-form program (a 'c' comment
    line that would be an assignment in free form)"""
    lib = _files_dir()
    files = dict(_FILES)
    if which == "f2":
        files["other.f90"] = _FILES2
    for name, text in files.items():
        with open(os.path.join(lib, name), "w") as f:
            f.write(text)
    return lib


_FILES2 = "      program q\n      integer c\nc = 5\n      c = 7\n      end program q\n"


OPS = ["c3", "c8"] + sorted(SOURCES)
OPS_SMALL = ["c3", "c8", "v1", "v2", "v3", "v4", "i2", "i3", "i4"]
# core alphabet explored to the full length in the quick tier
OPS_CORE = ["c3", "c8", "v1", "v2", "v3", "v7", "i2", "i3", "i4", "i5", "i6", "i8"]
CREATES = ["c3", "c8"]
_STD = {"c3": "f2003", "c8": "f2008"}

_state = {"parser": None}


def tables_tree():
    from fparser.two.symbol_table import SYMBOL_TABLES

    def rec(t):
        return (t.name, tuple(sorted((rec(c) for c in t.children), key=repr)), tuple(sorted(getattr(t, "_data_symbols", {}).keys())))

    tabs = SYMBOL_TABLES._symbol_tables
    return renumber_blocks(repr(tuple(sorted((rec(t) for t in tabs.values()), key=repr))))


def scope_name():
    from fparser.two.symbol_table import SYMBOL_TABLES

    cs = SYMBOL_TABLES.current_scope
    return cs.name if cs is not None else None


def registry_hash():
    from fparser.two.utils import Base

    d = {k: [c.__name__ for c in v] for k, v in Base.subclasses.items()}
    return h64(json.dumps(d, sort_keys=True))


def apply_op(op):
    """runs in a forked child; returns the observation (picklable dict)"""
    from fparser.two.parser import ParserFactory
    from fparser.common.readfortran import FortranStringReader, FortranFileReader

    def reader_for(op):
        src = SOURCES[op]
        if src.startswith("@file"):
            lib = _write_files("f2" if src.startswith("@file2:") else "f1")
            return FortranFileReader(os.path.join(lib, src.split(":", 1)[1]))
        return FortranStringReader(src)

    if op in _STD:
        _state["parser"] = ParserFactory().create(std=_STD[op])
        return {"k": "create", "reg": registry_hash(), "scope": scope_name(), "tables": tables_tree()}
    if _state["parser"] is None:
        return {"k": "no-parser"}
    before = tables_tree()
    try:
        tree = base.with_timeout(30.0, lambda: _state["parser"](reader_for(op)))
        out = {"k": "tree", "h": h64(canon(tree), text_of(tree)), "d": canon(tree)[:300]}
    except BaseException as e:
        out = {"k": "exc", "h": h64(type(e).__name__, str(e)), "d": "%s: %s" % (type(e).__name__, str(e)[:200])}
    out["scope"] = scope_name()
    out["tables"] = tables_tree()
    out["before"] = before
    return out


def fresh_reference(std_op, src):
    """executed in a fresh interpreter: create(std); parse(src)"""
    import shutil

    _files_dir()
    try:
        o1 = apply_op(std_op)
        o2 = apply_op(src)
    finally:
        shutil.rmtree(_state.get("fdir") or "", ignore_errors=True)
    return {"create": o1, "parse": o2}


_REFS = {}


def compute_refs():
    """one fresh interpreter per (std, source)"""
    jobs = [(s, x) for s in ("c3", "c8") for x in sorted(SOURCES)]

    def one(job):
        env = dict(os.environ, PYTHONHASHSEED="0", PYTHONDONTWRITEBYTECODE="1")
        code = "import sys, json; sys.path.insert(0, %r); from props import C09; print('REF' + json.dumps(C09.fresh_reference(%r, %r)))" % (
            os.path.dirname(os.path.dirname(os.path.abspath(__file__))),
            job[0],
            job[1],
        )
        out = subprocess.run([sys.executable, "-c", code], capture_output=True, text=True, env=env, timeout=300)
        for line in out.stdout.splitlines():
            if line.startswith("REF"):
                return job, json.loads(line[3:])
        raise RuntimeError("reference run failed: %s %s" % (job, out.stderr[-500:]))

    with ThreadPoolExecutor(16) as ex:
        for job, ref in ex.map(one, jobs):
            _REFS[job] = ref


def plan(tier, seed):
    if not _REFS:
        compute_refs()
    srcs = sorted(SOURCES)
    tasks = [("T", (), 1, "full")]
    for a in OPS:
        tasks.append(("T", (a,), 2, "full"))
    if tier == "quick":
        for a in OPS:
            for b in OPS:
                tasks.append(("T", (a, b), 3, "full"))
        for a in OPS_CORE:
            for b in OPS_CORE:
                tasks.append(("T", (a, b), 4, "core"))
        # the property's first sentence: create; parse(x); create; parse(y)
        for c in CREATES:
            for x in srcs:
                tasks.append(("T", (c, x), 4, "cpcp"))
    else:
        for a in OPS:
            for b in OPS:
                tasks.append(("T", (a, b), 4, "full"))
        for a in OPS_SMALL:
            for b in OPS_SMALL:
                tasks.append(("T", (a, b), 5, "small"))
    return tasks


def _subtree(prefix, depth_total, ops):
    """runs in a forked child of the pristine worker"""
    import shutil

    recs = []
    _files_dir()  # the chain's own directory, inherited by every child forked below
    try:
        for i, op in enumerate(prefix):
            obs = apply_op(op)
            if i == len(prefix) - 1:
                recs.append((tuple(prefix), obs))
        left = depth_total - len(prefix)
        if left > 0:
            recs += forktree.expand(tuple(prefix), ops, apply_op, left)
    finally:
        shutil.rmtree(_state.get("fdir") or "", ignore_errors=True)
    return recs


def run(task):
    _, prefix, depth_total, which = task
    ops = {"full": OPS, "small": OPS_SMALL, "core": OPS_CORE, "cpcp": [CREATES, sorted(SOURCES)]}[which]
    res = Result()
    recs = forktree.run_isolated(_subtree, list(prefix), depth_total, ops)
    if isinstance(recs, tuple) and recs and recs[0] == "HARNESS-ERROR":
        raise RuntimeError(recs[1])
    # prefix-only tasks (depth_total == len(prefix)) just record the node
    res.extra["records"] = [(list(h), o) for h, o in recs if len(h) > len(prefix) or depth_total == len(prefix) or True]
    res.evals += len(recs)
    res.transitions += len(recs) + len(prefix)
    return res


def h_state(history):
    """model H: (std, successful parses since create); obs needed -> computed in finish"""
    raise NotImplementedError


def finish(res, tier, seed):
    recs = {}
    for h, o in res.extra.pop("records", []):
        recs[tuple(h)] = o
    res.evals = len(recs)
    fresh_tables = None
    # walk histories in length order, computing model state H
    model = {(): (None, ())}
    groups = {}  # (std, successes, x) -> {outcome_hash: (history, desc)}
    for key, ref in _REFS.items():
        s, x = key
        o = ref["parse"]
        groups.setdefault((_STD[s], (), x), {})[o["h"]] = (("<fresh interpreter>", s, x), o["d"])
    ref_reg = {s: ref["create"]["reg"] for (s, x), ref in _REFS.items()}
    empty_tables = next(iter(_REFS.values()))["create"]["tables"]
    for h in sorted(recs, key=lambda t: (len(t), t)):
        o = recs[h]
        parent = h[:-1]
        if parent not in model:
            continue
        std, succ = model[parent]
        op = h[-1]
        res.states.add(h64(repr((o.get("scope"), o.get("tables"), std if op not in _STD else _STD[op]))))
        res.nontrivial.add(h64(repr(h)))
        if o.get("k") == "HARNESS-ERROR" or (isinstance(o, tuple) and o[0] == "HARNESS-ERROR"):
            res.violation("C09|harness", "history %s: %r" % (list(h), o), {"history": list(h)})
            continue
        if op in _STD:
            model[h] = (_STD[op], ())
            res.outcomes["create"] += 1
            if o["scope"] is not None or o["tables"] != empty_tables:
                res.violation("C09|create-leaves-state", "history %s: after create scope=%r tables=%s" % (list(h), o["scope"], o["tables"]), {"history": list(h)}, cost=len(h))
            if o["reg"] != ref_reg[op]:
                res.violation("C09|registry-differs", "history %s: rule registry after create(%s) differs from a fresh interpreter's" % (list(h), _STD[op]), {"history": list(h)}, cost=len(h))
            continue
        if o["k"] == "no-parser":
            model[h] = (std, succ)
            res.outcomes["no-parser"] += 1
            continue
        res.outcomes[o["k"] + ":" + op] += 1
        res.results.add(o["h"])
        if o["k"] == "exc":
            model[h] = (std, succ)
            if o["scope"] is not None:
                res.violation("C09|scope-left-open|%s" % op, "history %s: after failing parse(%s) the current scope is %r\n%s" % (list(h), op, o["scope"], o["d"]), {"history": list(h)}, cost=len(h))
            if o["tables"] != o["before"]:
                res.violation("C09|tables-changed-by-failed-parse|%s" % op, "history %s: failing parse(%s) changed the symbol tables\n before: %s\n after : %s" % (list(h), op, o["before"], o["tables"]), {"history": list(h)}, cost=len(h))
        else:
            model[h] = (std, succ + (op,))
        g = groups.setdefault((std, succ, op), {})
        if o["h"] not in g:
            g[o["h"]] = (h, o["d"])
    for (std, succ, x), g in sorted(groups.items(), key=lambda kv: (len(kv[0][1]), repr(kv[0]))):
        if len(g) > 1:
            items = sorted(g.values(), key=lambda v: (len(v[0]), repr(v[0])))
            # the shortest history is the witness pair
            a, b = items[0], items[1]
            detail = "parse(%s) under %s with successful parses %s since create gives different results:\n  history %s -> %s\n  history %s -> %s\n--- source:\n%s" % (x, std, list(succ), list(a[0]), a[1], list(b[0]), b[1], SOURCES[x])
            hist = [list(v[0]) for v in items[:2]]
            res.violation("C09|outcome-depends-on-history|%s|%s" % (x, "fresh-create" if not succ else "after-successes"), detail, {"pair": hist, "x": x}, cost=sum(len(v) for v in hist))
    res.extra["coverage"] = {"histories": len(recs), "h_model_states": len(set(model.values())), "outcome_groups": len(groups)}
    res.samples = [{"history": list(h), "observation": {k: (v if k != "tables" else v[:120]) for k, v in recs[h].items() if k in ("k", "d", "scope", "tables")}} for h in sorted(recs, key=lambda t: (-len(t), t))[:3]]


def _replay_history(history):
    """apply a history in an isolated child; returns list of observations"""

    def go(hist):
        import shutil

        _files_dir()
        try:
            return [apply_op(op) for op in hist]
        finally:
            shutil.rmtree(_state.get("fdir") or "", ignore_errors=True)

    return forktree.run_isolated(go, history)


def replay(case):
    if not _REFS:
        compute_refs()
    out = []
    if "history" in case:
        h = [x for x in case["history"]]
        obs = _replay_history(h)
        o = obs[-1]
        op = h[-1]
        if op in _STD:
            ref = _REFS[(op, "v1")]["create"]
            if o["scope"] is not None or o["tables"] != ref["tables"]:
                out.append({"sig": "C09|create-leaves-state", "detail": repr(o)})
            if o["reg"] != ref["reg"]:
                out.append({"sig": "C09|registry-differs", "detail": "registry hash differs"})
        elif o.get("k") == "exc":
            if o["scope"] is not None:
                out.append({"sig": "C09|scope-left-open|%s" % op, "detail": "scope %r after %s" % (o["scope"], o["d"])})
            if o["tables"] != o["before"]:
                out.append({"sig": "C09|tables-changed-by-failed-parse|%s" % op, "detail": "%s -> %s" % (o["before"], o["tables"])})
        return out
    a, b = case["pair"]
    x = case["x"]

    def outcome(hist):
        if hist and hist[0] == "<fresh interpreter>":
            return _REFS[(hist[1], hist[2])]["parse"], False
        obs = _replay_history(hist)
        succ = False
        for op, o in zip(hist[:-1], obs[:-1]):
            if op in _STD:
                succ = False
            elif o.get("k") == "tree":
                succ = True
        return obs[-1], succ

    (oa, sa), (ob, sb) = outcome(a), outcome(b)
    if oa["h"] != ob["h"]:
        out.append({"sig": "C09|outcome-depends-on-history|%s|%s" % (x, "after-successes" if (sa or sb) else "fresh-create"), "detail": "%s\nvs\n%s" % (oa["d"], ob["d"])})
    return out


def snippet(case):
    hist = case.get("history") or case["pair"][1]
    lines = ["from fparser.two.parser import ParserFactory", "from fparser.common.readfortran import FortranStringReader", "from fparser.two.symbol_table import SYMBOL_TABLES"]
    for op in hist:
        if op in _STD:
            lines.append("p = ParserFactory().create(std=%r)" % _STD[op])
        elif op in SOURCES and SOURCES[op].startswith("@file:"):
            lines.append("# a directory 'lib' holding other.f90 (%r) and c09_decls.inc (%r)" % (_FILES["other.f90"], _FILES["c09_decls.inc"]))
            lines.append("from fparser.common.readfortran import FortranFileReader\nprint(repr(p(FortranFileReader('lib/other.f90'))))")
        elif op in SOURCES:
            lines.append("try:\n    print(repr(p(FortranStringReader(%r))))\nexcept Exception as e:\n    print('raised', type(e).__name__)" % SOURCES[op])
            lines.append("print('scope after:', SYMBOL_TABLES.current_scope)")
    return "\n".join(lines)
