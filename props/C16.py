"""C16 - symbol tables mirror the scoping structure and drive intrinsic
resolution.  Model T: a scope tree with declarations, USEs and references
known by construction."""
import re
import itertools
from mc import explore
from mc.base import try_parse, h64, renumber_blocks, Base, walk
from mc.runner import Result

ID = "C16"
RULE = (
    "model T: every scope-tree shape of a catalogue (program, anonymous program, module, submodule, "
    "external subroutine/function, module and internal subprograms, BLOCK constructs nested in each "
    "other and inside IF / SELECT / DO / labelled-DO bodies; 1-2 top-level units) x a reference "
    "name(args) to an intrinsic at EVERY scope x a shadowing declaration (scalar, array, USE ONLY) at "
    "every subset of <= 2 scopes x intrinsic name x {no other USE | an unrelated USE ONLY | a wildcard USE of the same module} in every non-declaring scope. Oracles: table tree == scope tree (names, nesting, "
    "no duplicates), per-table symbols == declarations of that scope, used modules == USEs, and each "
    "reference is an Intrinsic_Function_Reference iff no declaration is visible (own scope or ancestor). "
    "Non-trivial = program with >= 2 scopes."
)
ASSUMPTIONS = ["ground truth (which scope declares what, which scope encloses which) is known from the generator", "wildcard USE only with valid argument counts (where it does not change resolution); interface bodies excluded"]
BOUNDS = {"quick": dict(shadow_subsets=2, intrinsics=4, decl_kinds=3), "thorough": dict(shadow_subsets=2, intrinsics=8, decl_kinds=3, pairs=True)}

# (referenced name, arguments, std, declared name, does the declaration shadow the reference?)
# - generic names; specific names of generic intrinsics (DABS, AMAX1, DSIN);
# - a declaration of the GENERIC name next to a reference to a SPECIFIC name
#   (and vice versa) shadows nothing: they are different names
INTRINSICS = [
    ("sin", "(y)", "f2003", "sin", True),
    ("dabs", "(y)", "f2003", "dabs", True),
    ("atan2", "(y, 2.0)", "f2003", "atan2", True),  # an intrinsic whose name contains a digit
    ("dsin", "(y)", "f2003", "sin", False),
    ("max", "(y, 2)", "f2003", "max", True),
    ("sum", "(w)", "f2003", "sum", True),  # (fparser's intrinsic table is the F2003 one: NORM2 etc. are ordinary names to it, see C17)
    ("amax1", "(y, 2.0)", "f2003", "amax1", True),
    ("max", "(y, 2)", "f2003", "amax1", False),
    ("size", "(w, 1)", "f2003", "size", True),
]
DECLS = ["real :: %s", "integer :: %s(3)", "use mm, only: %s"]


class Scope:
    def __init__(self, kind, name, children=(), wrap=None):
        self.kind = kind  # program anon module submodule subroutine function block
        self.name = name
        self.children = list(children)
        self.wrap = wrap  # for blocks: construct the block sits in
        self.idx = None


def P(name, *ch):
    return Scope("program", name, ch)


def A(*ch):
    return Scope("anon", "fparser2:main_program", ch)


def M(name, *ch):
    return Scope("module", name, ch)


def SM(name, *ch):
    return Scope("submodule", name, ch)


def S(name, *ch):
    return Scope("subroutine", name, ch)


def F(name, *ch):
    return Scope("function", name, ch)


def B(*ch, wrap=None):
    return Scope("block", "block", ch, wrap=wrap)


# catalogue of scope-tree shapes (list of top-level units)
SHAPES = {
    "prog": [P("p")],
    "anon": [A()],
    "prog-sub": [P("p", S("a"))],
    "prog-sub-func": [P("p", S("a"), F("b"))],
    "mod-sub": [M("m", S("a"))],
    "mod-sub-internal": [M("m", S("a", F("c")), F("d"))],
    "mod+prog": [M("m", S("a")), P("p", S("b"))],
    "ext-sub+func": [S("s"), F("f")],
    "ext-sub-internal": [S("s", S("a"), F("b"))],
    "anon-sub": [A(S("a"))],
    "prog-block": [P("p", B())],
    "prog-block-block": [P("p", B(B()))],
    "prog-two-blocks": [P("p", B(), B())],
    "sub-internal-block": [S("s", S("a", B()))],
    "mod-sub-block-in-if": [M("m", S("a", B(wrap="if")))],
    "block-in-do": [S("s", B(wrap="do"))],
    "block-in-select": [S("s", B(wrap="select"))],
    "block-in-labelled-do-continue": [S("s", B(wrap="do_label_continue"))],
    "block-in-labelled-do-enddo": [S("s", B(wrap="do_label_enddo"))],
    "block-in-labelled-do-action": [S("s", B(wrap="do_label_action"))],
    "block-after-if-stmt": [S("s", B(wrap="after_if_stmt"))],
    "block-in-shared-do-continue": [S("s", B(wrap="shared_do_continue"))],
    "block-in-shared-do-action": [S("s", B(wrap="shared_do_action"))],
    "block-in-do-concurrent": [S("s", B(wrap="do_concurrent"))],
    "block-in-associate": [S("s", B(wrap="associate"))],
    "block-in-block-in-labelled-do-action": [S("s", B(B(), wrap="do_label_action"))],
    "submodule-sub": [SM("sm", S("a"))],
    "func-internal": [F("f", S("a"))],
    "mod+mod+prog": [M("m1", F("a")), M("m2", S("a")), P("p")],
    "named-block": [P("p", B(wrap="named"))],
}


def number(units):
    """assign preorder indices; returns flat list"""
    flat = []

    def rec(s, parent):
        s.idx = len(flat)
        s.parent = parent
        flat.append(s)
        for c in s.children:
            rec(c, s)

    for u in units:
        rec(u, None)
    return flat


def render(units, ref_scopes, intr, shadows, bystander=False):
    """shadows: dict scope_idx -> decl kind index.  Every scope in ref_scopes
    gets a reference.  Returns source text."""
    name, args, _, declname, _eff = intr
    lines = []

    def spec(s, ind):
        out = []
        if s.idx in shadows:
            out.append(ind + DECLS[shadows[s.idx]] % declname)
        elif bystander == 2:
            # a wildcard USE of the very module the shadowing USE ... ONLY
            # statements name: each scope still records its own USE, and the
            # names an inner ONLY list imports still shadow
            out.append(ind + "use mm")
        elif bystander:
            # an unrelated USE in every scope that declares nothing: it must
            # not stop the search of the enclosing scopes
            out.append(ind + "use other_mod, only: zzq%d" % s.idx)
        out.append(ind + "real :: y, w(3), x%d" % s.idx)
        return out

    def body(s, ind):
        """spec + exec lines of scope s (without header/footer)"""
        out = []
        blocks = [c for c in s.children if c.kind == "block"]
        subs = [c for c in s.children if c.kind != "block"]
        if s.kind in ("module", "submodule"):
            sp = spec(s, ind)
            # USE must come first; a module has no execution part: the
            # reference is an initialisation expression
            use = [l for l in sp if l.strip().startswith("use")]
            rest = [l for l in sp if not l.strip().startswith("use")]
            out += use + rest
            if s.idx in ref_scopes:
                out.append(ind + "real :: r%d = %s%s" % (s.idx, name, args))
        else:
            sp = spec(s, ind)
            use = [l for l in sp if l.strip().startswith("use")]
            rest = [l for l in sp if not l.strip().startswith("use")]
            out += use + rest
            if s.idx in ref_scopes:
                out.append(ind + "x%d = %s%s" % (s.idx, name, args))
            for b in blocks:
                out += block(b, ind)
            out.append(ind + "y = 1.0")
        if subs:
            out.append(ind[:-1] + "contains")
            for c in subs:
                out += unit(c, ind)
        return out

    def block(b, ind):
        inner = [ind + " block"] + body(b, ind + "  ") + [ind + " end block"]
        w = b.wrap
        if w == "named":
            inner = [ind + " nb%d: block" % b.idx] + body(b, ind + "  ") + [ind + " end block nb%d" % b.idx]
        if w == "if":
            return [ind + "if (y > 0) then"] + inner + [ind + "else", ind + " y = 2.0", ind + "end if"]
        if w == "do":
            return [ind + "do i = 1, 3"] + inner + [ind + "end do"]
        if w == "select":
            return [ind + "select case (i)", ind + "case (1)"] + inner + [ind + "case default", ind + " y = 3.0", ind + "end select"]
        if w == "do_label_continue":
            return [ind + "do 10 i = 1, 3"] + inner + ["10 " + ind + "continue"]
        if w == "do_label_enddo":
            return [ind + "do 10 i = 1, 3"] + inner + ["10 " + ind + "end do"]
        if w == "do_label_action":
            return [ind + "do 10 i = 1, 3"] + inner + ["10 " + ind + "y = y + 1"]
        if w == "shared_do_continue":
            return [ind + "do 10 i = 1, 3", ind + "do 10 j = 1, 3"] + inner + ["10 " + ind + "continue"]
        if w == "shared_do_action":
            return [ind + "do 10 i = 1, 3", ind + "do 10 j = 1, 3"] + inner + ["10 " + ind + "y = y + 1"]
        if w == "do_concurrent":
            return [ind + "do concurrent (i = 1:3)"] + inner + [ind + "end do"]
        if w == "associate":
            return [ind + "associate (zz => y)"] + inner + [ind + "end associate"]
        if w == "after_if_stmt":
            return [ind + "if (y > 0) y = 0"] + inner
        return inner

    def unit(s, ind):
        if s.kind == "program":
            return [ind + "program " + s.name] + body(s, ind + " ") + [ind + "end program " + s.name]
        if s.kind == "anon":
            return body(s, ind + " ") + [ind + "end"]
        if s.kind == "module":
            return [ind + "module " + s.name] + body(s, ind + " ") + [ind + "end module " + s.name]
        if s.kind == "submodule":
            return [ind + "submodule (mpar) " + s.name] + body(s, ind + " ") + [ind + "end submodule " + s.name]
        if s.kind == "subroutine":
            return [ind + "subroutine %s()" % s.name] + body(s, ind + " ") + [ind + "end subroutine " + s.name]
        if s.kind == "function":
            return [ind + "function %s()" % s.name] + body(s, ind + " ") + [ind + "end function " + s.name]
        raise ValueError(s.kind)

    for u in units:
        lines += unit(u, " ")
    return "\n".join(lines) + "\n"


def expected_tables(units, intr, shadows, ref_scopes=(), bystander=False):
    name = intr[3]

    def rec(s):
        syms = {"y", "w", "x%d" % s.idx}
        if s.kind in ("module", "submodule") and s.idx in ref_scopes:
            syms.add("r%d" % s.idx)
        mods = set()
        if s.idx in shadows:
            if shadows[s.idx] == 2:
                mods.add("mm")
            else:
                syms.add(name)
        elif bystander == 2:
            mods.add("mm")
        elif bystander:
            mods.add("other_mod")
        tname = s.name.lower()
        if s.kind == "block":
            tname = "nb%d" % s.idx if s.wrap == "named" else "block"
        return (tname, tuple(sorted(syms)), tuple(sorted(mods)), tuple(sorted((rec(c) for c in s.children), key=repr)))

    return tuple(sorted((rec(u) for u in units), key=repr))


def observed_tables():
    from fparser.two.symbol_table import SYMBOL_TABLES

    def rec(t):
        nm = "block" if t.name.startswith("block:") else t.name
        return (nm, tuple(sorted(t._data_symbols.keys())), tuple(sorted(t._modules.keys())), tuple(sorted((rec(c) for c in t.children), key=repr)))

    return tuple(sorted((rec(t) for t in SYMBOL_TABLES._symbol_tables.values()), key=repr))


def visible_shadow(s, shadows):
    while s is not None:
        if s.idx in shadows:
            return True
        s = s.parent
    return False


def reference_classes(tree, flat, ref_scopes):
    """scope idx -> class name of the referencing expression"""
    from fparser.two import Fortran2003 as F3

    out = {}
    for n in walk(tree, (F3.Assignment_Stmt, F3.Entity_Decl)):
        if isinstance(n, F3.Assignment_Stmt):
            lhs = str(n.items[0])
            m = re.fullmatch(r"x(\d+)", lhs)
            if m:
                out[int(m.group(1))] = type(n.items[2]).__name__
        else:
            m = re.fullmatch(r"r(\d+)", str(n.items[0]))
            if m and n.items[3] is not None:
                out[int(m.group(1))] = type(n.items[3].items[1]).__name__
    return out


def judge(units, flat, src, std, intr, shadows, ref_scopes, bystander=False):
    out = []
    # a new parser is created for every case (ParserFactory().create(std)), as a
    # user would: the tables must describe THIS program, whatever was parsed before
    from mc import base

    from fparser.two.symbol_table import SYMBOL_TABLES

    SYMBOL_TABLES.clear()  # (harness: every case starts from empty tables, so that it replays on its own)
    base.forget_parser()
    o = try_parse(src, std)
    if o.ok:
        # ... and once more: create(std) again, parse the same source again -
        # the tables are those of ONE parse of this program
        base.forget_parser()
        o = try_parse(src, std)
    if not o.ok:
        return [("rejected:" + o.klass(), (o.msg or "")[:200])], o
    exp = expected_tables(units, intr, shadows, ref_scopes, bystander)
    obs = observed_tables()
    if obs != exp:
        out.append(("table-tree", "symbol tables differ from the scope tree\n  observed: %s\n  model   : %s" % (obs, exp)))
    classes = reference_classes(o.tree, flat, ref_scopes)
    for i in sorted(ref_scopes):
        want_intrinsic = not (intr[4] and visible_shadow(flat[i], shadows))
        got = classes.get(i)
        if got is None:
            out.append(("reference-missing", "reference in scope %d not found in the tree" % i))
        elif (got == "Intrinsic_Function_Reference") != want_intrinsic:
            out.append(("resolution:%s" % ("missed-intrinsic" if want_intrinsic else "ignored-shadow"), "reference in scope %d (%s %s) is %s; a shadowing declaration is %svisible there" % (i, flat[i].kind, flat[i].name, got, "not " if want_intrinsic else "")))
    return out, o


def corrupt(src):
    """the same source with a construct-name mismatch inserted before the END
    of its LAST unit (rejected with a FortranSyntaxError raised by the name
    check itself, after every earlier unit has matched); None if the last unit
    has no execution part"""
    lines = src.rstrip("\n").split("\n")
    last = lines[-1].strip().lower()
    if not last.startswith(("end program", "end subroutine", "end function")) and last != "end":
        return None
    return "\n".join(lines[:-1] + ["  zq: do i = 1, 2", "  end do qz", lines[-1]]) + "\n"


def judge_after_rejected(units, flat, src, std, intr, shadows, ref_scopes):
    """the property after a REJECTED parse with the same parser object and no
    clearing in between: tables mirror the scoping structure of the source
    parsed now, whatever was rejected before"""
    from mc import base
    from mc.base import FortranStringReader, Outcome

    bad = corrupt(src)
    if bad is None:
        return None
    p = base.parser_for(std)  # clears the tables
    try:
        base.with_timeout(20.0, lambda: p(FortranStringReader(bad)))
        return [("model:corrupted-source-accepted", bad)]
    except BaseException as e:
        if type(e).__name__ != "FortranSyntaxError":
            return [("rejected-parse-raised:" + type(e).__name__, str(e)[:200])]
    try:
        tree = base.with_timeout(20.0, lambda: p(FortranStringReader(src)))
    except BaseException as e:
        return [("after-rejected:rejected:" + type(e).__name__, str(e)[:200])]
    out = []
    exp = expected_tables(units, intr, shadows, ref_scopes, 0)
    obs = observed_tables()
    if obs != exp:
        out.append(("after-rejected:table-tree", "after a rejected parse (same parser, tables not cleared) the tables differ from the scope tree of the source parsed now\n  observed: %s\n  model   : %s" % (obs, exp)))
    classes = reference_classes(tree, flat, ref_scopes)
    for i in sorted(ref_scopes):
        want_intrinsic = not (intr[4] and visible_shadow(flat[i], shadows))
        got = classes.get(i)
        if got is not None and (got == "Intrinsic_Function_Reference") != want_intrinsic:
            out.append(("after-rejected:resolution", "reference in scope %d is %s" % (i, got)))
    return out


def plan(tier, seed):
    return [(tier, name) for name in sorted(SHAPES)]


def cases(tier, shape):
    b = BOUNDS[tier]
    units = SHAPES[shape]
    flat = number(units)
    n = len(flat)
    needs08 = any(s.kind in ("block", "submodule") for s in flat)
    for intr in INTRINSICS[: b["intrinsics"]]:
        stds = ["f2008"] if (needs08 or intr[2] == "f2008") else ["f2003", "f2008"]
        subsets = [()] + [(i,) for i in range(n)] + [c for c in itertools.combinations(range(n), 2)]
        for sub in subsets:
            kind_choices = itertools.product(range(b["decl_kinds"]), repeat=len(sub))
            for kinds in kind_choices:
                shadows = dict(zip(sub, kinds))
                # module scopes: an array declaration named like the
                # intrinsic + initialisation reference is fine syntactically
                ref_scopes = set(range(n))
                yield units, flat, intr, shadows, ref_scopes, stds


def feature(shape, shadows, flat):
    kinds = sorted(set(flat[i].kind + (":" + flat[i].wrap if flat[i].wrap else "") for i in range(len(flat)) if flat[i].kind == "block"))
    return "%s|%s" % (shape, ",".join(kinds))


def run(task):
    tier, shape = task
    res = Result()
    for units, flat, intr, shadows, ref_scopes, stds in cases(tier, shape):
      for bystander in ((0, 1, 2) if len(shadows) <= 1 else (0,)):
        src = render(units, ref_scopes, intr, shadows, bystander)
        for std in stds:
            res.evals += 1
            res.transitions += 1 + len(shadows)
            hk = h64(src, std)
            res.states.add(hk)
            if len(flat) >= 2:
                res.nontrivial.add(hk)
            vs, o = judge(units, flat, src, std, intr, shadows, ref_scopes, bystander)
            res.outcomes["ok" if not vs else vs[0][0]] += 1
            if o.ok:
                res.results.add(h64(repr(observed_tables()), repr(sorted(reference_classes(o.tree, flat, ref_scopes).items()))))
            for kind, detail in vs:
                res.violation("C16|%s|%s" % (kind, feature(shape, shadows, flat)), "shape %s reference %s shadows %s std=%s\n%s\n--- source:\n%s" % (shape, intr[0], {flat[i].kind + " " + flat[i].name: DECLS[k] % intr[3] for i, k in shadows.items()}, std, detail, src), {"shape": shape, "intr": list(intr), "shadows": {str(k): v for k, v in shadows.items()}, "std": std, "bystander": bystander}, cost=len(src) + 1000 * len(shadows))
        # once more after a rejected parse with the same parser object
        if len(shadows) <= 1:
            src = render(units, ref_scopes, intr, shadows, 0)
            for std in stds:
                vs = judge_after_rejected(units, flat, src, std, intr, shadows, ref_scopes)
                if vs is None:
                    continue
                res.evals += 1
                res.transitions += 2
                hk = h64(src, std, "after-rejected")
                res.states.add(hk)
                res.nontrivial.add(hk)
                res.outcomes["after-rejected:" + ("ok" if not vs else vs[0][0])] += 1
                for kind, detail in vs:
                    res.violation("C16|%s|%s" % (kind, feature(shape, shadows, flat)), "shape %s reference %s shadows %s std=%s\n%s\n--- rejected first:\n%s\n--- source:\n%s" % (shape, intr[0], {flat[i].kind + " " + flat[i].name: DECLS[k] % intr[3] for i, k in shadows.items()}, std, detail, corrupt(src), src), {"shape": shape, "intr": list(intr), "shadows": {str(k): v for k, v in shadows.items()}, "std": std, "bystander": 0, "after_rejected": True}, cost=len(src) + 1000 * len(shadows) + 500)
        if res.evals % 60 == 1:
            res.sample({"shape": shape, "shadows": {flat[i].name: DECLS[k] % intr[3] for i, k in shadows.items()}, "source": src})
    return res


def replay(case):
    units = SHAPES[case["shape"]]
    flat = number(units)
    shadows = {int(k): v for k, v in case["shadows"].items()}
    intr = tuple(case["intr"])
    ref_scopes = set(range(len(flat)))
    by = int(case.get("bystander") or 0)
    src = render(units, ref_scopes, intr, shadows, by)
    if case.get("after_rejected"):
        vs = judge_after_rejected(units, flat, src, case["std"], intr, shadows, ref_scopes) or []
        return [{"sig": "C16|%s|%s" % (k, feature(case["shape"], shadows, flat)), "detail": d} for k, d in vs]
    vs, o = judge(units, flat, src, case["std"], intr, shadows, ref_scopes, by)
    return [{"sig": "C16|%s|%s" % (k, feature(case["shape"], shadows, flat)), "detail": d} for k, d in vs]
