"""C17 - the F2008 parser accepts everything the F2003 parser accepts, with
the same regenerated text (F2008-only intrinsic names apart); the F2003 parser
rejects F2008-only constructs."""
import re
from mc import scenarios
from mc import grammar as G
from mc.base import try_parse, canon, text_of, h64, node_classes
from mc.runner import Result
from mc import lexer

ID = "C17"
RULE = (
    "E1 enumeration of model G layers A-D: every F2003 program parsed under both standards and "
    "the regenerated texts compared; every F2008-only program (templates/constructs marked f2008 "
    "by the model) must be rejected by f2003 (before AND after the f2008 parser has parsed the same source) and accepted by f2008; plus every F2008-only construct "
    "in every layer-B context of depth <= 2. Non-trivial = program with >= 3 statements accepted by f2003, "
    "or an F2008-only program."
)
ASSUMPTIONS = ["valid class = model G; which programs are F2008-only is decided by the model, not by fparser"]
BOUNDS = scenarios.BOUNDS

def _fold_outside_literals(text):
    out = []
    for line in text.split("\n"):
        try:
            toks = lexer.lex(line) if not line.lstrip().startswith(("!", "#")) else [("str", line)]
        except lexer.LexError:
            toks = [("str", line)]
        out.append(" ".join(t if k == "str" else t.lower() for k, t in toks))
    return "\n".join(out)


def judge(src, prog_is_08_only, uses_08_intrinsic_name):
    o3 = try_parse(src, "f2003")
    t3 = text_of(o3.tree) if o3.ok else None
    o8 = try_parse(src, "f2008")
    t8 = text_of(o8.tree) if o8.ok else None
    # the f2003 verdict once more, AFTER the f2008 parser has worked on the same
    # source: the two parsers share classes and module-level state, so the
    # F2003 half of the property is also decided in that order
    o3b = try_parse(src, "f2003")
    t3b = text_of(o3b.tree) if o3b.ok else None
    if prog_is_08_only:
        if o3.ok:
            return "f2003-accepts-f2008-only", "f2003 parser accepted an F2008-only program; str:\n%s" % t3, o8
        if o3b.ok:
            return "f2003-accepts-f2008-only", "f2003 parser accepted an F2008-only program once the f2008 parser had parsed the same source (order: f2003, f2008, f2003); str:\n%s" % t3b, o8
        if not o8.ok:
            return "f2008-rejects-f2008-program:" + o8.klass(), (o8.msg or "")[:200], o8
        return None, None, o8
    if not o3.ok:
        return "model-f2003-rejected:" + o3.klass(), (o3.msg or "")[:200], o3
    if not o8.ok:
        return "f2008-rejects-f2003-program:" + o8.klass(), (o8.msg or "")[:200], o3
    if o3b.ok != o3.ok or t3b != t3:
        return "f2003-result-changed-by-f2008-parse", "order f2003, f2008, f2003 on the same source\n--- first f2003:\n%s\n--- second f2003:\n%s" % (t3, t3b if o3b.ok else o3b.klass()), o8
    if t3 != t8:
        if uses_08_intrinsic_name and _fold_outside_literals(t3) == _fold_outside_literals(t8):
            return None, None, o8
        return "text-differs", "--- f2003:\n%s\n--- f2008:\n%s" % (t3, t8), o8
    return None, None, o8


_I08 = None


def uses_08_name(src):
    global _I08
    if _I08 is None:
        # model-side list of F2008 intrinsic names (standard, 13.7), lower case
        _I08 = set(
            "acosh asinh atanh bessel_j0 bessel_j1 bessel_jn bessel_y0 bessel_y1 bessel_yn bge bgt ble blt "
            "dshiftl dshiftr erf erfc erfc_scaled execute_command_line findloc gamma hypot iall iany image_index "
            "iparity is_contiguous lcobound leadz log_gamma maskl maskr merge_bits norm2 num_images parity popcnt "
            "poppar shifta shiftl shiftr storage_size this_image trailz ucobound atomic_define atomic_ref "
            "compiler_options compiler_version c_sizeof".split()
        )
    words = set(w.lower() for w in re.findall(r"[A-Za-z_]\w*", src))
    return bool(words & _I08)


def sigtag(kind, tag):
    return "C17|%s|%s" % (kind, tag)


def render_spaced(prog):
    """the program with a blank at EVERY token boundary where one is allowed
    (model R's notion of a breakable boundary): 'intent ( in )', 'a ( i ) = 1'"""
    from mc import layout

    lines = []
    for s, d in zip(prog, G.depths(prog)):
        if s.kind == "program_anon":
            continue
        toks = layout.stmt_toks(s)
        is_fmt = any(x.kind == "id" and x.text.lower() == "format" for x in toks[:2])
        out = toks[0].text
        for j in range(1, len(toks)):
            out += (" " if layout._breakable(toks, j, is_fmt) else toks[j].pre) + toks[j].text
        lines.append(" " * (1 + 2 * d) + out)
    return "\n".join(lines) + "\n"


def check_case(res, cid, prog, tag):
    _check_src(res, cid, prog, tag, G.render(prog))
    if cid.startswith(("A/", "S/")):
        # statement-level layers once more with blanks at every token boundary
        _check_src(res, cid + "spaced/", prog, tag + "|spaced", render_spaced(prog))


def _check_src(res, cid, prog, tag, src):
    only08 = any(s.std == "f2008" for s in prog)
    if not only08 and any(s.std == "f2008x" for s in prog):
        return  # f2003 behaviour not constrained by the model (extensions)
    res.evals += 1
    hk = h64(src)
    res.states.add(hk)
    kind, detail, o = judge(src, only08, uses_08_name(src))
    res.outcomes[("only08:" if only08 else "f2003:") + (kind or "ok")] += 1
    if o is not None and o.ok:
        res.classes |= node_classes(o.tree)
        res.results.add(h64(canon(o.tree)))
    if only08 or len(prog) >= 3:
        res.nontrivial.add(hk)
    if only08:
        res.counters["f2008_only_programs"] += 1
    if kind:
        res.violation(sigtag(kind, tag), "%s\n%s\n--- source:\n%s" % (cid, detail, src), {"src": src, "only08": only08, "cid": cid, "tag": tag}, cost=len(src))


# F2008-only statements/constructs placed in every construct context (d <= 2)
F08_STMTS = ["error stop", "error stop 'bad'", "allocate(a, mold=b)", "open(newunit=u, file='x')"]


def cases_F08(task):
    from mc import explore

    _, first, d = task
    stats = {}
    for seq in scenarios.kind_sequences(first, d):
        for fs in F08_STMTS + ["@block", "@critical", "@do_concurrent"]:
            if seq[-1] in ("where", "forall"):
                continue  # bodies that admit only assignments

            def scenario(ch, seq=seq, fs=fs):
                body = G.nest(seq, ch)
                # put the F2008-only item innermost: replace the innermost probe
                out = []
                done = False
                for s in body:
                    if not done and "probe" in s.tags and s.text == "a = a + %d" % len(seq):
                        if fs.startswith("@"):
                            out += G.EXEC_BY_NAME[fs[1:]]([G.S("a = 0", "assign")], ch, 9)
                        else:
                            out.append(G.S(fs, "f08", std="f2008"))
                        done = True
                    else:
                        out.append(s)
                assert done
                return G.sub_wrap(execs=out, name="sub", args="(v)")

            for vec, ch, prog in explore.explore(scenario, 0, stats):
                yield ("F/%s/%s/" % ("-".join(seq), fs), vec, prog, stats)


# Layer K: Fortran has no reserved words.  Every statement form that begins with (or
# carries in its key position) a user name, with the name drawn from identifiers that
# START WITH A KEYWORD of either standard (round 8: 'do concurrent_idx = 1, 10').
# Only programs the f2003 parser accepts are judged (the property's premise).
K_PREFIXES = [
    "concurrent", "while", "do", "if", "then", "else", "elseif", "end", "enddo", "endif", "block", "endblock",
    "critical", "error", "errorstop", "stop", "select", "case", "type", "class", "allocate", "open", "newunit",
    "sync", "lock", "unlock", "codimension", "contiguous", "submodule", "impure", "mold", "associate", "forall",
    "where", "call", "print", "integer", "real", "go", "goto", "return", "continue", "format", "data", "result",
    "function", "subroutine", "module", "program", "use", "import", "procedure", "enum", "exit", "cycle", "only",
]
K_SUFFIXES = ["", "_idx", "1", "x"]
K_FORMS = [
    ("assign", ["%(n)s = 1"]),
    ("assign-el", ["%(n)sv(1) = %(n)s + 1"]),
    ("do", ["do %(n)s = 1, 10", "a = a + %(n)s", "end do"]),
    ("do-comma", ["do, %(n)s = 1, 10, 2", "a = a + 1", "end do"]),
    ("do-named", ["nm: do %(n)s = 1, 3", "a = %(n)s", "end do nm"]),
    ("do-label", ["do 10 %(n)s = 1, 3", "a = %(n)s", "10 continue"]),
    ("do-label-comma", ["do 10, %(n)s = 1, 3", "a = %(n)s", "10 continue"]),
    ("do-while", ["do while (%(n)s < 3)", "%(n)s = %(n)s + 1", "end do"]),
    ("if-stmt", ["if (%(n)s > 0) %(n)s = 2"]),
    ("if-then", ["if (%(n)s > 0) then", "%(n)s = 2", "else if (%(n)s < 0) then", "%(n)s = 3", "end if"]),
    ("call", ["call ext(%(n)s, %(n)sv)"]),
    ("io", ["print *, %(n)s, %(n)sv(1)", "read(5, *) %(n)s", "write(6, *) (%(n)sv(%(n)s), %(n)s = 1, 3)"]),
    ("alloc", ["allocate(%(n)sp(3))", "deallocate(%(n)sp)"]),
    ("select", ["select case (%(n)s)", "case (1)", "%(n)s = 2", "case default", "%(n)s = 3", "end select"]),
    ("forall", ["forall (%(n)s = 1:3) %(n)sv(%(n)s) = 0"]),
    ("where", ["where (%(n)sv > 0) %(n)sv = 0"]),
    ("ptr", ["%(n)sp => %(n)sv"]),
]


def k_names():
    return [p + s for p in K_PREFIXES for s in K_SUFFIXES]


def k_program(n, form):
    spec = [
        G.S("integer :: %s, a" % n, "decl"),
        G.S("integer, target :: %sv(10)" % n, "decl"),
        G.S("integer, pointer :: %sp(:)" % n, "decl"),
    ]
    return " subroutine sub()\n" + "".join("  %s\n" % s.text for s in spec) + "".join("  %s\n" % (t % {"n": n}) for t in form) + " end subroutine sub\n"


def run_K(task):
    res = Result()
    _, lo, hi = task
    names = k_names()[lo:hi]
    for n in names:
        for fname, form in K_FORMS:
            src = k_program(n, form)
            cid = "K/%s/%s" % (fname, n)
            res.evals += 1
            res.transitions += 1
            hk = h64(src)
            res.states.add(hk)
            res.nontrivial.add(hk)
            o3 = try_parse(src, "f2003")
            if not o3.ok:
                # outside the property's premise (f2003 itself does not take the name here)
                res.outcomes["K:f2003-rejects(not judged)"] += 1
                continue
            kind, detail, o = judge(src, False, uses_08_name(src))
            res.outcomes["K:" + (kind or "ok")] += 1
            if o is not None and o.ok:
                res.results.add(h64(canon(o.tree)))
            if kind:
                res.violation(sigtag(kind, "K/" + fname), "%s\n%s\n--- source:\n%s" % (cid, detail, src), {"src": src, "only08": False, "cid": cid, "tag": "K/" + fname}, cost=len(src))
        res.sample({"case": "K/*/" + n, "source": k_program(n, K_FORMS[2][1])})
    return res


def plan(tier, seed):
    ts = scenarios.tasks(tier)
    nk = len(k_names())
    for lo in range(0, nk, 16):
        ts.append(("K", lo, min(nk, lo + 16)))
    names = [n for n, _ in G.EXEC_CONSTRUCTS]
    for d in (1, 2):
        for first in names:
            ts.append(("F", first, d))
    return ts


def run(task):
    if task[0] == "K":
        return run_K(task)
    if task[0] == "F":
        res = Result()
        n = 0
        st = None
        for cid, vec, prog, stats in cases_F08(task):
            check_case(res, cid, prog, scenarios.feature_tag(cid))
            st = stats
            if n % 40 == 0:
                res.sample({"case": cid, "source": G.render(prog)})
            n += 1
        if st:
            res.transitions += st.get("decisions", 0)
        return res
    return scenarios.run_task(task, check_case)


def replay(case):
    kind, detail, o = judge(case["src"], case["only08"], uses_08_name(case["src"]))
    if kind:
        return [{"sig": sigtag(kind, case.get("tag") or scenarios.feature_tag(case["cid"])), "detail": detail}]
    return []
