"""C07 - a syntax error is reported at the offending statement's line."""
import re
from mc import corpus, scenarios, explore
from mc import grammar as G
from mc.base import try_parse, h64, FortranSyntaxError
from mc.runner import Result

ID = "C07"
RULE = (
    "full product: (corpus E programs + every layer-B nest up to depth d) x EVERY statement s x garbage "
    "g in a small set that matches no rule x rendering of the garbage (one line | continued over 2 "
    "lines | continued over 3 lines with a comment line in between) x context (blank+comment lines "
    "after it or not; previous statement continued or not) x std x ignore_comments. Oracle: "
    "FortranSyntaxError whose message starts 'at line N' with N = last physical line of the "
    "replaced statement and quotes that line. Non-trivial = every case (each replaces a statement)."
)
ASSUMPTIONS = ["garbage texts are not the start of any Fortran statement", "free-form sources"]
BOUNDS = {
    "quick": dict(nest_depth=2, nest_garbage=2, nest_prev_cont=False, nest_ic=(True,)),
    "thorough": dict(nest_depth=3, nest_garbage=4, nest_prev_cont=True, nest_ic=(True, False), depth3="1 garbage text, previous statement not continued, comments ignored"),
}
GARBAGE = ["@@@ ???", "this is not fortran", "1 2 3", "= = =", "zz :"]  # the last one: a bare construct name
RENDER = ["one", "two", "three-comment"]
GARBAGE_ONE = ["x = 'oh no", 'print *, "a+b']  # an opened but unclosed character literal: rendered on one line only


def render_garbage(g, mode, indent):
    a, b = g.split(" ", 1)
    if mode == "one":
        return [indent + g]
    if mode == "two":
        return [indent + a + " &", indent + "   " + b]
    c, d = (b.split(" ", 1) + [""])[:2]
    return [indent + a + " &", indent + "! comment inside", indent + "  & " + c + " &", indent + "  " + (d or "?")]


def build(prog, si, g, mode, after, prev_cont, keep_label=False):
    """source text with statement si replaced; returns (text, line_no, line_text)"""
    ds = corpus.depths(prog)
    lines = []
    target = None
    for i, (s, d) in enumerate(zip(prog, ds)):
        if s.kind == "program_anon":
            continue
        ind = " " * (1 + 2 * d)
        if i == si:
            gl = render_garbage(g, mode, ind)
            if keep_label and s.label:
                # the statement's label stays in front of the garbage
                gl[0] = ind + s.label + " " + gl[0].lstrip()
            lines += gl
            target = len(lines)
            if after:
                lines += ["", ind + "! a comment after", ""]
        elif prev_cont and i == si - 1 and " " in s.text and not s.text.startswith(("'", '"')):
            # previous statement continued over two lines at its first blank
            # outside a literal (only when that blank precedes any quote)
            k = s.text.index(" ")
            q = min([s.text.find(c) for c in "'\"" if c in s.text] or [len(s.text)])
            if k < q:
                pre = (s.label + " " if s.label else "") + (s.name + ": " if s.name else "")
                lines += [ind + pre + s.text[:k] + " &", ind + "    " + s.text[k + 1 :]]
            else:
                lines.append(ind + s.line())
        else:
            lines.append(ind + s.line())
    return "\n".join(lines) + "\n", target, lines[target - 1]


def judge(text, std, ic, line_no, line_text):
    o = try_parse(text, std, ignore_comments=ic)
    if o.ok:
        return "accepted", "garbage statement accepted"
    if o.exc_type != "FortranSyntaxError":
        return "other-exception:" + o.klass(), (o.msg or "")[:200]
    m = re.match(r"at line (\d+)\n>>>(.*)\n", o.msg)
    if not m:
        return "no-location", o.msg[:200]
    if int(m.group(1)) != line_no:
        return "wrong-line", "reported line %s, statement ends on line %d\nmessage: %s" % (m.group(1), line_no, o.msg[:200])
    if m.group(2) != line_text.rstrip():
        return "wrong-text", "quoted %r, line is %r" % (m.group(2), line_text)
    return None, None


def plan(tier, seed):
    from mc import layout

    ltasks = []
    lprogs = layout_programs()
    for i, (pid, prog) in enumerate(lprogs):
        for si in range(len(prog)):
            ltasks.append(("L", i, si, tier))
    return ltasks + _plan_rest(tier, seed)


def layout_programs():
    from mc import layout

    out = [("E/P5", corpus.corpus()["P5"]), ("E/P6", corpus.corpus()["P6"])]
    out += [("F/" + name, prog) for name, prog, only in layout.focus_programs()]
    return out


def run_layout(task):
    """the replaced statement and its predecessor laid out with <= k
    deviations of the free-form layout model (continuations with blank /
    comment lines in between, comment tails)"""
    from mc import layout
    from mc.grammar import S

    _, pi, si, tier = task
    pid, prog = layout_programs()[pi]
    res = Result()
    small = pid.startswith("F/")
    k = (2 if small else 1) if tier == "quick" else (3 if small else 2)
    std = G.prog_std(prog)
    styles = [(0, 0, 1, 0), (1, 0, 1, 1), (1, 1, 0, 2)]
    for gi, g in enumerate(GARBAGE[:2] if tier == "quick" else GARBAGE):
        mutated = list(prog)
        mutated[si] = S(g, "garbage", "simple")
        opts = {"only": {si - 1, si}, "styles": styles, "case": False, "indents": False, "gaps": False, "joins": False, "lit_breaks": False, "trailing": False}
        for vec, ch, lay in explore.explore(lambda ch: layout.render_free(mutated, ch, opts), k if gi == 0 else min(k, 1)):
            ex = lay.expect[si]
            text = lay.text
            ln, lt = ex.last, lay.lines[ex.last - 1]
            for ic in (True, False) if len([v for v in vec if v]) <= 1 else (True,):
                res.evals += 1
                res.transitions += 1
                hk = h64(text, std, str(ic))
                res.states.add(hk)
                res.nontrivial.add(hk)
                kind, detail = judge(text, std, ic, ln, lt)
                res.outcomes[kind or "located"] += 1
                res.results.add(h64(pid, str(ln)))
                if kind:
                    feats = ",".join(sorted(f.split(":")[0] for f in lay.features)) or "canonical"
                    res.violation("C07|%s|layout:%s" % (kind, feats), "%s statement %d replaced by %r, layout vec=%s std=%s ic=%s\n%s\n--- source:\n%s" % (pid, si + 1, g, list(vec), std, ic, detail, text), {"text": text, "std": std, "ic": ic, "line": ln, "line_text": lt, "kind": "layout", "mode": feats, "layout": True}, cost=len(vec) * 100000 + len(text))
    res.sample({"program": pid, "replaced_statement_index": si, "layout_k": k})
    return res


def _plan_rest(tier, seed):
    tasks = [("E", pid, sh, tier) for pid in sorted(corpus.corpus()) for sh in range(6)]
    names = [n for n, _ in G.EXEC_CONSTRUCTS]
    for d in range(1, BOUNDS[tier]["nest_depth"] + 1):
        for first in names:
            tasks.append(("B", first, d, tier))
    return tasks


def progs_of(task):
    if task[0] == "E":
        yield "E/" + task[1], corpus.corpus()[task[1]]
    else:
        for seq in scenarios.kind_sequences(task[1], task[2]):
            ch, prog = explore.run(scenarios.nest_scenario(seq), ())
            yield "B/" + "-".join(seq), prog


def run(task):
    if task[0] == "L":
        return run_layout(task)
    res = Result()
    b = BOUNDS[task[-1]]
    full = task[0] == "E"
    garbage = GARBAGE if full else GARBAGE[: b["nest_garbage"]]
    pcs = (False, True) if (full or b["nest_prev_cont"]) else (False,)
    ics = (True, False) if full else b["nest_ic"]
    if not full and task[2] >= 3:
        # depth-3 nests (15^3 sequences): one garbage text, comments ignored
        garbage, pcs, ics = GARBAGE[:1], (False,), (True,)
    for pid, prog in progs_of(task):
        stds = G.stds_for(prog)
        for si, s in enumerate(prog):
            if s.kind == "program_anon":
                continue
            if full and si % 6 != task[2]:
                continue
            for gi, g in enumerate(list(garbage) + (GARBAGE_ONE if full else [])):
                for mode in (RENDER if g not in GARBAGE_ONE else ["one"]):
                    for after in (False, True):
                        for prev_cont, keep_label in [(pc, kl) for pc in pcs for kl in ((False, True) if (s.label and full) else (False,))]:
                            if prev_cont and si == 0:
                                continue
                            text, ln, lt = build(prog, si, g, mode, after, prev_cont, keep_label)
                            for std in stds:
                                for ic in ics:
                                    res.evals += 1
                                    res.transitions += 1
                                    hk = h64(text, std, str(ic))
                                    res.states.add(hk)
                                    res.nontrivial.add(hk)
                                    kind, detail = judge(text, std, ic, ln, lt)
                                    res.outcomes[kind or "located"] += 1
                                    res.results.add(h64(pid, str(ln)))
                                    if kind:
                                        res.violation("C07|%s|%s|%s" % (kind, s.kind + ":" + s.role, mode), "%s statement %d (%s) replaced by %r (%s, after=%s, prev_cont=%s) std=%s ic=%s\n%s\n--- source:\n%s" % (pid, si + 1, s.line(), g, mode, after, prev_cont, std, ic, detail, text), {"text": text, "std": std, "ic": ic, "line": ln, "line_text": lt, "kind": s.kind + ":" + s.role, "mode": mode}, cost=len(text))
            if si % 7 == 0:
                res.sample({"program": pid, "replaced_statement": s.line(), "source": build(prog, si, GARBAGE[0], "two", True, False)[0]})
    return res


def replay(case):
    kind, detail = judge(case["text"], case["std"], case["ic"], case["line"], case["line_text"])
    if case.get("layout"):
        return [{"sig": "C07|%s|layout:%s" % (kind, case["mode"]), "detail": detail}] if kind else []
    return [{"sig": "C07|%s|%s|%s" % (kind, case["kind"], case["mode"]), "detail": detail}] if kind else []
