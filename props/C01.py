"""C01 - round-trip fixpoint: T = parse(P); parse(str(T)) ~ T;
str(parse(str(T))) == str(T), for every program of layers A-D of model G,
both standards (where P is in that standard), comments dropped or retained.
"""
from mc import base, scenarios
from mc import grammar as G
from mc.base import try_parse, canon, text_of, h64, node_classes
from mc.runner import Result

ID = "C01"
RULE = (
    "E1 deviation-bounded enumeration of model G (layer A: every statement template "
    "in its minimal context; B: every nest of executable-construct kinds up to depth d; "
    "C: every ordered pair of sibling kinds; S: specification constructs per host; "
    "D: every sequence of program-unit kinds) x std x ignore_comments. A case is "
    "distinct by its rendered source+configuration; non-trivial = it parsed to a tree "
    "with >= 3 statements and was re-parsed."
)
ASSUMPTIONS = [
    "the valid class is model G (mc/grammar*.py); inputs outside it are not covered",
    "tree equality is repr() equality with synthetic block:N names renumbered",
]
BOUNDS = scenarios.BOUNDS
EXHAUSTIVE = True


# Layer N: a reference to an intrinsic NAME, the name being a true intrinsic or shadowed
# by a local declaration / a USE, in every spelling of the reference (blank before the
# parenthesis, blanks inside, mixed case) and several statement contexts (round 8: the
# shadowing test looked up the unstripped text in front of '(').
N_INTRINSICS = ["sum", "index", "size", "atan2", "mod", "max"]
N_DECLS = [
    ("none", None),
    ("local", "real :: %(n)s(3)"),
    ("local-2d", "integer, dimension(3, 3) :: %(n)s"),
    ("use-only", "use tables, only: %(n)s"),
    ("use-renamed", "use tables, only: %(n)s => other"),
    ("use-all", "use tables"),
]
N_SPELL = ["%(n)s%(a)s", "%(n)s %(a)s", "%(N)s  %(a)s", "%(C)s %(a)s"]
N_ARGS = ["(a, 2)", "(a(1:2), 2)", "(1)", "( 2 )"]
N_CTX = ["x = %s", "x = %s + 2 * %s", "if (%s > 0) x = 1", "call ext(%s, x)", "print *, %s"]


def n_cases(intr):
    for dname, decl in N_DECLS:
        for si, sp in enumerate(N_SPELL):
            for ai, args in enumerate(N_ARGS):
                if dname in ("none", "use-all") and ai >= 2:
                    continue  # a true intrinsic needs a valid argument count
                ref = sp % {"n": intr, "N": intr.upper(), "C": intr.capitalize(), "a": args}
                for ci, ctx in enumerate(N_CTX):
                    spec = []
                    if decl and decl.startswith("use"):
                        spec.append(G.S(decl % {"n": intr}, "use"))
                    spec.append(G.S("real :: a(3, 3), x", "decl"))
                    if decl and not decl.startswith("use"):
                        spec.append(G.S(decl % {"n": intr}, "decl"))
                    prog = G.sub_wrap(spec=spec, execs=[G.S(ctx.replace("%s", ref), "stmt")], name="sub", args="()")
                    yield "N/%s/%s/s%d-a%d-c%d" % (intr, dname, si, ai, ci), prog


def k_cases(lo, hi):
    """layer K: the keyword-prefixed identifiers and statement forms of props/C17.py
    (Fortran has no reserved words), here under the round-trip oracle"""
    from props import C17

    for n in C17.k_names()[lo:hi]:
        for fname, form in C17.K_FORMS:
            spec = [G.S("integer :: %s, a" % n, "decl"), G.S("integer, target :: %sv(10)" % n, "decl"), G.S("integer, pointer :: %sp(:)" % n, "decl")]
            execs = [G.S(t % {"n": n}, "stmt") for t in form]
            yield "K/%s/%s" % (fname, n), G.sub_wrap(spec=spec, execs=execs, name="sub", args="()")


def plan(tier, seed):
    from props import C17

    nk = len(C17.k_names())
    return scenarios.tasks(tier) + [("N", i) for i in N_INTRINSICS] + [("K", lo, min(nk, lo + 16)) for lo in range(0, nk, 16)]


def roundtrip(src, std, ic):
    """returns (violation-kind or None, detail, outcome)"""
    o = try_parse(src, std, ignore_comments=ic)
    if not o.ok:
        return "rejected:" + o.klass(), "parse(P) failed: %s %s" % (o.klass(), (o.msg or "")[:200]), o
    try:
        t1 = text_of(o.tree)
        c1 = canon(o.tree)
    except BaseException as e:
        return "print-failed:" + type(e).__name__, repr(e), o
    o2 = try_parse(t1 + "\n", std, ignore_comments=ic)
    if not o2.ok:
        return "reparse-rejected:" + o2.klass(), "parse(str(T)) failed: %s %s\n--- str(T):\n%s" % (o2.klass(), (o2.msg or "")[:200], t1), o
    c2 = canon(o2.tree)
    if c2 != c1:
        return "tree-differs", "parse(str(T)) != T\n--- str(T):\n%s\n--- T :%s\n--- T2:%s" % (t1, c1, c2), o
    t2 = text_of(o2.tree)
    if t2 != t1:
        return "text-differs", "str(parse(str(T))) != str(T)\n--- 1:\n%s\n--- 2:\n%s" % (t1, t2), o
    return None, None, o


def check_case(res, cid, prog, layer_tag):
    srcs = [(True, G.render(prog)), (False, scenarios.with_comments(prog)), (False, scenarios.with_comments(prog, 1))]
    for std in G.stds_for(prog):
        for ic, src in srcs:
            res.evals += 1
            hk = h64(src, std, str(ic))
            res.states.add(hk)
            kind, detail, o = roundtrip(src, std, ic)
            res.outcomes[(kind or "ok")] += 1
            if o.ok:
                res.classes |= node_classes(o.tree)
                res.results.add(h64(canon(o.tree)))
                if len(prog) >= 3:
                    res.nontrivial.add(hk)
            if kind:
                feat = layer_tag
                res.violation(
                    "C01|%s|%s" % (kind, feat),
                    "%s std=%s ignore_comments=%s\n%s\n--- source:\n%s" % (cid, std, ic, detail, src),
                    {"src": src, "std": std, "ic": ic, "cid": cid},
                    cost=len(src),
                )


def feature_tag(cid):
    """model-level feature of the case used in the violation signature:
    layer + template id / construct kinds (not the choice vector)."""
    parts = cid.split("/")
    return "/".join(parts[:-1])


def run(task):
    res = Result()
    last = None
    if task[0] in ("N", "K"):
        for cid, prog in n_cases(task[1]) if task[0] == "N" else k_cases(task[1], task[2]):
            check_case(res, cid, prog, feature_tag(cid))
            res.transitions += 1
            if res.evals % 200 == 1:
                res.sample({"case": cid, "source": G.render(prog)})
        res.counters["layer_%s_cases" % task[0]] += res.evals
        return res
    for cid, vec, prog, stats in scenarios.cases(task):
        check_case(res, cid, prog, feature_tag(cid))
        last = stats
        if res.evals % 50 == 1:
            res.sample({"case": cid, "source": G.render(prog)})
    if last:
        res.transitions += last.get("decisions", 0)
    res.counters["layer_%s_cases" % task[0]] += res.evals
    return res


def replay(case):
    kind, detail, o = roundtrip(case["src"], case["std"], case["ic"])
    if kind:
        return [{"sig": "C01|%s|%s" % (kind, feature_tag(case["cid"])), "detail": detail}]
    return []


def snippet(case):
    return (
        "from fparser.two.parser import ParserFactory\n"
        "from fparser.common.readfortran import FortranStringReader\n"
        "src = %r\n"
        "p = ParserFactory().create(std=%r)\n"
        "t = p(FortranStringReader(src, ignore_comments=%r)); s = str(t); print(s)\n"
        "t2 = p(FortranStringReader(s, ignore_comments=%r)); assert repr(t2) == repr(t) and str(t2) == s\n"
        % (case["src"], case["std"], case["ic"], case["ic"])
    )
