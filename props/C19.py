"""C19 - the legacy statement-level parser (fparser1) round-trips its own
output."""
import re
import logging
from mc import scenarios, explore, lexer, corpus, layout
from mc import grammar as G
from mc.normalise import FOLD
from mc.base import h64, with_timeout
from mc.runner import Result

ID = "C19"
RULE = (
    "E1 enumeration of the F77/F90 part of model G (layer-A templates not marked F2008, layer-B nests and "
    "layer-C sibling pairs without F2008 constructs, layer-D unit sequences, corpus programs) x source "
    "form {free, fixed rendering} x analyze {False, True} x ignore_comments. A program is in the "
    "quantifier's domain iff fparser.api.parse accepts it (no exception). Oracles for accepted P: the "
    "regenerated source is accepted again; body(str(parse1(str(parse1(P))))) == body(str(parse1(P))); the "
    "depth sequence from api.walk is the same in both parses, equals the depth sequence the block structure of P dictates (model G roles), and the statement count equals the model's; "
    "per statement the sequence of names, numeric and character literals and dotted operators equals the "
    "source's. Non-trivial = accepted program with >= 3 statements."
)
ASSUMPTIONS = ["acceptance by fparser1 defines the subset (a rejected program is counted, not judged)", "expression text is compared as the per-statement sequence of names / literals / dotted operators (lexer L)"]
BOUNDS = scenarios.BOUNDS
F08_KINDS = {"block", "critical", "do_concurrent"}


def api():
    from fparser import api as a

    return a


def body(text):
    out = []
    for line in text.split("\n"):
        st = line.strip()
        if not st or "BEGINSOURCE" in st:
            continue
        st = re.sub(r"^(\d+)\s+", r"\1 ", st)
        out.append(st)
    return out


# attribute / specifier keywords whose loss changes the meaning of a statement
ATTRS = set("public private parameter save allocatable pointer target optional intent in out inout dimension external intrinsic recursive pure elemental".split())


def content_tokens(text, from_source=True):
    """names (non-keyword identifiers), literals and dotted operators of one
    statement"""
    out = []
    try:
        toks = lexer.lex(text)
    except lexer.LexError:
        return ["<unlexable>"]
    for i, (k, t) in enumerate(toks):
        if k == "id":
            low = t.lower()
            if low in ATTRS:
                out.append("<" + low + ">")
                continue
            if low in FOLD or low in ("c",):
                continue
            if low in ("b", "o", "z") and i + 1 < len(toks) and toks[i + 1][0] == "str":
                continue
            out.append(t.lower())  # fparser1 works on the lower-cased line
        elif k == "num":
            out.append(t.lower())
        elif k == "str":
            out.append(t)
        elif k == "dot":
            out.append(t.lower())
    return out


def parse1(src, isfree, analyze, ic):
    a = api()
    return with_timeout(30.0, a.parse, src, isfree=isfree, isstrict=False, analyze=analyze, ignore_comments=ic)


def depth_seq(tree):
    a = api()
    out = []
    for s, d in a.walk(tree):
        if type(s).__name__ == "Comment":
            continue  # incl. the !BEGINSOURCE header of the regenerated text
        out.append(d)
    return out


def model_depths(prog):
    """walk() depth of every statement as the block structure of P dictates:
    a block's opening and END statements at depth d, its content (ELSE / CASE /
    CONTAINS lines included) at d + 1, units at depth 1; the statement that
    terminates a labelled DO by its label is the LAST CHILD of that loop.
    None for programs with shared DO termination (known finding F32)."""
    if any(t.startswith("shared") for s in prog for t in s.tags):
        return None
    out = []
    for s, d in zip(prog, corpus.depths(prog)):
        if s.kind == "program_anon":
            continue
        if s.role == "mid":
            out.append(d + 2)
        elif s.role == "close" and s.kind in ("do_term", "continue_term", "action_term"):
            out.append(d + 2)
        else:
            out.append(d + 1)
    return out


def statement_depths(tree):
    """depth sequence of the statements the model knows: the action statement
    held inside a logical IF (WHERE / FORALL statement) is not a statement of
    its own in the model"""
    a = api()
    out = []
    prev = None
    for s, d in a.walk(tree):
        name = type(s).__name__
        if name == "Comment":
            continue
        if prev is not None and prev[0] in ("If", "WhereStmt", "ForallStmt") and d == prev[1] + 1:
            prev = None
            continue
        prev = (name, d)
        out.append(d)
    return out


def judge(src, isfree, analyze, ic, model_stmts, mdepths=None):
    """returns ('not-accepted', info) | (None, None) | (kind, detail)"""
    try:
        t1 = parse1(src, isfree, analyze, ic)
    except BaseException as e:
        return "not-accepted", "%s: %s" % (type(e).__name__, str(e)[:100])
    try:
        s1 = str(t1)
    except BaseException as e:
        return "print-raises:" + type(e).__name__, repr(e)[:200]
    b1 = body(s1)
    try:
        t2 = parse1(s1, isfree, analyze, ic)
        s2 = str(t2)
    except BaseException as e:
        return "regenerated-not-accepted:" + type(e).__name__, "%s\n--- regenerated:\n%s" % (str(e)[:200], s1)
    b2 = body(s2)
    if b2 != b1:
        for i, (x, y) in enumerate(zip(b1, b2)):
            if x != y:
                return "second-pass-differs", "line %d: first pass %r, second pass %r" % (i + 1, x, y)
        return "second-pass-differs", "%d lines vs %d lines" % (len(b1), len(b2))
    d1, d2 = depth_seq(t1), depth_seq(t2)
    if d1 != d2:
        return "nesting-differs", "depths first pass %r, second %r" % (d1, d2)
    if mdepths is not None:
        sd = statement_depths(t1)
        if sd != list(mdepths):
            k = next((i for i, (x, y) in enumerate(zip(sd, mdepths)) if x != y), min(len(sd), len(mdepths)))
            return "block-structure", "walk() depth of statement %d (%r) is %s, the block structure of the source gives %s\n  observed: %r\n  model   : %r" % (k + 1, model_stmts[k][2] if k < len(model_stmts) else "?", sd[k] if k < len(sd) else "-", mdepths[k] if k < len(mdepths) else "-", sd, list(mdepths))
    code = [l for l in b1 if not l.startswith("!") and not l.startswith("C ")]
    if len(code) != len(model_stmts):
        return "statement-count", "model has %d statements, regenerated text %d\n%s" % (len(model_stmts), len(code), "\n".join(b1))
    for i, (line, (label, name, text)) in enumerate(zip(code, model_stmts)):
        if re.match(r"(?i)end\b|end(if|do|select|where|forall|program|module|subroutine|function|type|interface|blockdata)\b", text):
            # fparser1 completes END statements with the block's kind and
            # name (documented canonicalisation): only the label is compared
            if label and not line.startswith(str(int(label))):
                return "content-differs", "statement %d: label %s lost in %r" % (i + 1, label, line)
            continue
        want = ([str(int(label))] if label else []) + ([name.lower()] if name else []) + content_tokens(text)
        got = content_tokens(line, False)

        def split(toks):
            # attribute keywords may be printed in another order (prefix of a
            # FUNCTION statement): compared as a multiset; names, literals and
            # operators in sequence
            return [t for t in toks if not t.startswith("<")], sorted(t for t in toks if t.startswith("<"))

        if split(got) != split(want) and re.match(r"(?i)character\s*\(", text) and sorted(got) == sorted(want):
            continue  # CHARACTER(KIND=k, LEN=n) is printed LEN first (order of the selector only)
        if split(got) != split(want):
            return "content-differs", "statement %d: source %r -> %r\n  names/literals in source: %r\n  in regenerated text     : %r" % (i + 1, text, line, want, got)
    return None, None


# Features newer than Fortran 90/95: a program using one is outside C19's
# subset (decided by the model from the statement text it generated itself).
_F2003 = re.compile(
    r"(?i)\bprocedure\s*\(|\bclass\s*\(|\bimport\b|\bbind\s*\(|\bprotected\b|\bvalue\b|\bvolatile\b|"
    r"\basynchronous|\benum\b|\benumerator\b|\babstract\b|\bassociate\b|select\s+type|\[|\]|source\s*=|errmsg\s*=|"
    r"iomsg\s*=|\bwait\s*\(|\bflush\b|stream\s*=|pending\s*=|decimal\s*=|round\s*=|sign\s*=|encoding\s*=|"
    r"\bid\s*=|\bpos\s*=|use\s*,|operator\s*\(\s*\.\w+\.\s*\)\s*=>|null\s*\(\s*\w|\)\s*=>|"
    r"allocate\s*\([^()]*(\([^()]*\))?[^()]*::|len\s*=\s*:|extends\s*\(|\bgeneric\b|\bfinal\b|\bdeferred\b|"
    r"non_overridable|nopass|\bpass\b|type\s*\(\s*\w+\s*\(|convert\s*=|\bdouble complex|kind\s*::|len\s*::|"
    r"type\s*,\s*(public|private)|\bsequence\b.*\bkind\b|dt\s*[\"']|\bdc\b|\brn\b|max\(|intrinsic\s*::.*|"
    r"read\s*\(\s*formatted|write\s*\(\s*(un)?formatted|module\s+procedure\s*::|^procedure\b|type\s*,\s*bind|"
    r"%\w+\s*=>|\bo%|impure|\bmodule\s+(subroutine|function)|\bresult\s*\(\w+\)\s*bind"
)


def is_f90(prog):
    if any(s.std in ("f2008", "f2008x") for s in prog):
        return False
    return not any(_F2003.search(s.text) for s in prog)


def fixed_source(prog):
    ch = explore.Chooser(())
    lay = layout.render_fixed(prog, ch)
    return lay.text


def joined_source(prog):
    """free-form rendering in which every simple statement is joined with the
    following simple unlabelled statement by ';' (non-overlapping pairs); None
    if nothing can be joined.  fparser1 prints the statements separately."""
    ds = corpus.depths(prog)
    stmts = [(s, d) for s, d in zip(prog, ds) if s.kind != "program_anon"]
    lines = []
    i = 0
    joined = 0
    while i < len(stmts):
        s, d = stmts[i]
        ind = " " * (1 + 2 * d)
        if i + 1 < len(stmts) and s.role == "simple" and stmts[i + 1][0].role == "simple" and not stmts[i + 1][0].label and not s.text.lower().startswith(("format", "if ", "if(", "where", "forall", "data", "implicit", "use", "include")) and not stmts[i + 1][0].text.lower().startswith(("format", "data", "implicit", "use", "include", "entry")):
            lines.append(ind + s.line() + "; " + stmts[i + 1][0].line())
            joined += 1
            i += 2
        else:
            lines.append(ind + s.line())
            i += 1
    return "\n".join(lines) + "\n" if joined else None


def check_case(res, cid, prog, tag):
    if not is_f90(prog):
        return
    if any(t.startswith("shared") for s in prog for t in s.tags):
        tag = "shared-do-termination"
    model = [(s.label, s.name, s.text) for s in prog if s.kind != "program_anon"]
    md = model_depths(prog)
    free = corpus.render(prog)
    srcs = [("free", free, True)]
    if all(len(s.line()) < 50 for s in prog):
        srcs.append(("fixed", fixed_source(prog), False))
    js = joined_source(prog)
    if js is not None:
        srcs.append(("free-joined", js, True))
    for form, src, isfree in srcs:
        for analyze in (False, True):
            for ic in (True, False) if not analyze else (True,):
                res.evals += 1
                hk = h64(src, form, str(analyze), str(ic))
                res.states.add(hk)
                kind, detail = judge(src, isfree, analyze, ic, model, md)
                res.outcomes[kind or "ok"] += 1
                if kind == "not-accepted":
                    res.counters["not_accepted"] += 1
                    continue
                res.results.add(hk)
                if len(model) >= 3:
                    res.nontrivial.add(hk)
                if kind:
                    res.violation("C19|%s|%s|%s" % (kind, tag, form), "%s form=%s analyze=%s ic=%s\n%s\n--- source:\n%s" % (cid, form, analyze, ic, detail, src), {"src": src, "isfree": isfree, "analyze": analyze, "ic": ic, "model": [list(m) for m in model], "tag": tag, "form": form, "mdepths": md}, cost=len(src))


def plan(tier, seed):
    ts = [t for t in scenarios.tasks(tier) if not (t[0] == "B" and t[1] in F08_KINDS) and not (t[0] == "S" and t[1] == "block")]
    return ts + [("E", pid) for pid in sorted(corpus.corpus())]


def run(task):
    logging.disable(logging.CRITICAL)
    if task[0] == "E":
        res = Result()
        check_case(res, "E/" + task[1] + "/", corpus.corpus()[task[1]], "E/" + task[1])
        res.sample({"program": task[1], "source": corpus.render(corpus.corpus()[task[1]])[:400]})
        return res
    return scenarios.run_task(task, check_case)


def replay(case):
    logging.disable(logging.CRITICAL)
    kind, detail = judge(case["src"], case["isfree"], case["analyze"], case["ic"], [tuple(m) for m in case["model"]], case.get("mdepths"))
    if kind and kind != "not-accepted":
        return [{"sig": "C19|%s|%s|%s" % (kind, case["tag"], case["form"]), "detail": detail}]
    return []
