"""C08 - ill-nested constructs and unbalanced parentheses are never accepted."""
import re
from mc import corpus, scenarios, explore, lexer
from mc import grammar as G
from mc.base import try_parse, h64
from mc.runner import Result

ID = "C08"
RULE = (
    "full product: (corpus E + every layer-B nest up to depth d, with and without construct names) x "
    "every single structural edit known to the model to make the program ill-formed: delete an opener; "
    "delete a closer; duplicate an END; insert a foreign END of each construct kind at every position; "
    "insert an unterminated opener of each kind at every position; rename the name on an END/ELSE/CASE; "
    "add a name to an END whose opener has none; delete or duplicate each parenthesis outside character "
    "context. Edits that leave a valid program are excluded by the model (listed in the module). "
    "Oracle: the parse must not return a tree. Non-trivial = every case."
)
ASSUMPTIONS = ["which edits keep a program valid is decided by the model (EXCLUSIONS in props/C08.py), never by fparser's answer"]
BOUNDS = {"quick": dict(nest_depth=2), "thorough": dict(nest_depth=3)}

FOREIGN_ENDS = [
    ("if", "end if"), ("do", "end do"), ("select", "end select"), ("where", "end where"), ("forall", "end forall"),
    ("associate", "end associate"), ("block", "end block"), ("critical", "end critical"), ("type", "end type"),
    ("interface", "end interface"), ("subroutine", "end subroutine"), ("function", "end function"),
    ("module", "end module"), ("program", "end program"), ("enum", "end enum"),
]
OPENERS = [
    "if (zq > 0) then", "do", "do zi = 1, 2", "select case (zq)", "where (zw > 0)", "forall (zi = 1:2)",
    "associate (zz => zq)", "block", "critical", "type zt", "interface", "subroutine zs", "function zf()",
    "module zm", "program zp", "enum, bind(c)", "select type (zq)", "do while (zq > 0)",
]


def family(s):
    """construct family of an opener statement"""
    k = s.kind
    t = s.text.lower()
    for fam in ("if", "do", "select", "where", "forall", "associate", "block", "critical", "type", "interface", "subroutine", "function", "module", "submodule", "program", "enum"):
        if k.startswith(fam) or re.match(r"(\w+\s+)*%s\b" % fam, t):
            if fam == "block" and t.startswith("block data"):
                return "blockdata"
            if fam == "module" and t.startswith("module procedure"):
                continue
            return fam
    if k in ("abstract",):
        return "interface"
    return k


def open_stack_before(prog):
    """for each position p (before statement p), the list of open statements"""
    stack = []
    out = []
    for s in prog:
        if s.role == "close":
            n = 1
            for t in s.tags:
                if t.startswith("shared"):
                    n = int(t[6:])
            out.append(list(stack))
            for _ in range(n):
                stack.pop()
            continue
        out.append(list(stack))
        if s.role == "open":
            stack.append(s)
    out.append(list(stack))
    return out


def text_of(stmts):
    lines = []
    for s in stmts:
        if isinstance(s, str):
            lines.append("  " + s)
        elif s.kind != "program_anon":
            lines.append("  " + s.line())
    return "\n".join(lines) + "\n"


def edits(prog):
    """yield (edit-kind, description, text)"""
    n = len(prog)
    stacks = open_stack_before(prog)
    top_level_closers = set()
    depth = 0
    for i, s in enumerate(prog):
        if s.role == "open":
            depth += 1
        elif s.role == "close":
            k = 1
            for t in s.tags:
                if t.startswith("shared"):
                    k = int(t[6:])
            depth -= k
            if depth == 0:
                top_level_closers.add(i)
    for i, s in enumerate(prog):
        if s.kind == "program_anon":
            continue
        is_end = s.role == "close" and s.text.lower().startswith("end")
        if s.role == "open":
            fam = family(s)
            # EXCLUSIONS: removing PROGRAM leaves a valid anonymous main program;
            # removing a labelled DO whose terminator is CONTINUE / an action
            # statement leaves a valid labelled statement
            skip = fam == "program"
            if s.kind == "do_label" or re.match(r"do\s+\d+", s.text.lower()):
                lab = re.match(r"do\s+(\d+)", s.text.lower()).group(1)
                term = next((t for t in prog[i + 1 :] if t.role == "close" and t.label == lab), None)
                if term is not None and not term.text.lower().startswith("end"):
                    skip = True
            if not skip:
                yield "delete-opener:" + fam, "delete line %d %r" % (i + 1, s.line()), text_of(prog[:i] + prog[i + 1 :])
        if s.role == "close":
            yield "delete-closer:" + s.kind, "delete line %d %r" % (i + 1, s.line()), text_of(prog[:i] + prog[i + 1 :])
        if is_end:
            # EXCLUSION: duplicating the END of a top-level unit when it is a
            # bare END / END PROGRAM adds a (syntactically valid) empty main program
            low = s.text.lower().replace(" ", "")
            if not (i in top_level_closers and (low == "end" or low.startswith("endprogram"))):
                yield "duplicate-end:" + s.kind, "duplicate line %d %r" % (i + 1, s.line()), text_of(prog[: i + 1] + [s] + prog[i + 1 :])
            # rename / add a name
            m = re.match(r"(?i)(end\s*\w+(?:\s+data)?)(\s+(\w+))?$", s.text)
            # EXCLUSION: the generic-spec on END INTERFACE is not a construct
            # name; C08 speaks of construct / program-unit names only
            if m and m.group(1).lower().replace(" ", "") not in ("end", "endinterface"):
                lab = "@labelled" if s.label else ""
                if m.group(3):
                    yield "rename-end:" + s.kind + lab, "line %d %r -> name zzq" % (i + 1, s.line()), text_of(prog[:i] + [s.copy(text=m.group(1) + " zzq")] + prog[i + 1 :])
                else:
                    yield "add-end-name:" + s.kind + lab, "line %d %r + name zzq" % (i + 1, s.line()), text_of(prog[:i] + [s.copy(text=m.group(1) + " zzq")] + prog[i + 1 :])
        if s.role == "mid" and s.name is None:
            m = re.match(r"(?i)(else|case default|case\s*\(.*\)|elsewhere)(\s+(\w+))$", s.text)
            if m and m.group(3).lower() not in ("then", "default"):
                yield "rename-mid:" + s.kind, "line %d %r -> name zzq" % (i + 1, s.line()), text_of(prog[:i] + [s.copy(text=m.group(1) + " zzq")] + prog[i + 1 :])
        # parentheses outside character context
        try:
            toks = lexer.lex(s.text)
        except lexer.LexError:
            toks = []
        pos = 0
        for k, t in toks:
            j = s.text.index(t, pos)
            pos = j + len(t)
            if k == "op" and t in ("(", ")", "(/", "/)"):
                pj = j if t in ("(", ")") else (j if t == "(/" else j + 1)
                yield "delete-paren:" + s.kind, "line %d %r: delete %r at %d" % (i + 1, s.line(), s.text[pj], pj), text_of(prog[:i] + [s.copy(text=s.text[:pj] + s.text[pj + 1 :])] + prog[i + 1 :])
                yield "duplicate-paren:" + s.kind, "line %d %r: duplicate %r at %d" % (i + 1, s.line(), s.text[pj], pj), text_of(prog[:i] + [s.copy(text=s.text[:pj] + s.text[pj] + s.text[pj:])] + prog[i + 1 :])
    # insertions at every position
    anon_at = next((i for i, s in enumerate(prog) if getattr(s, "kind", None) == "program_anon"), None)
    for p in range(n + 1):
        inner = stacks[p][-1] if stacks[p] else None
        inner_fam = family(inner) if inner is not None else None
        for fam, endtext in FOREIGN_ENDS:
            if inner_fam == fam and fam == "do" and getattr(inner, "kind", "") == "do_label" and endtext.strip().lower() in ("end do", "enddo"):
                # an END DO without label cannot close a DO that names a label
                yield "insert-end:do|in:do_label", "insert %r before line %d (innermost open: labelled DO)" % (endtext, p + 1), text_of(prog[:p] + [endtext] + prog[p:])
                continue
            if inner_fam == fam:
                continue  # would close the innermost construct: may be valid
            if fam == "program" and inner_fam is None:
                continue  # END PROGRAM at top level = empty main program
            if inner_fam is None and fam in ("subroutine", "function", "module") and False:
                continue
            yield "insert-end:%s|in:%s" % (fam, inner_fam), "insert %r before line %d (innermost open: %s)" % (endtext, p + 1, inner_fam), text_of(prog[:p] + [endtext] + prog[p:])
        for op in OPENERS:
            if anon_at is not None and p <= anon_at + 1 and op.split()[0] in ("program", "subroutine", "function"):
                # EXCLUSION: a PROGRAM / SUBROUTINE / FUNCTION statement in front of a main
                # program that has none gives a valid unit (its bare END closes any of them)
                continue
            yield "insert-opener:" + op.split()[0].rstrip(","), "insert %r before line %d" % (op, p + 1), text_of(prog[:p] + [op] + prog[p:])


def plan(tier, seed):
    tasks = [("E", pid, sh) for pid in sorted(corpus.corpus()) for sh in range(4)]
    names = [n for n, _ in G.EXEC_CONSTRUCTS]
    for d in range(1, BOUNDS[tier]["nest_depth"] + 1):
        for first in names:
            tasks.append(("B", first, d))
    return tasks


def progs_of(task):
    if task[0] == "E":
        yield "E/" + task[1], corpus.corpus()[task[1]]
    else:
        for seq in scenarios.kind_sequences(task[1], task[2]):
            ch, prog = explore.run(scenarios.nest_scenario(seq), ())
            yield "B/" + "-".join(seq), prog
            # the same nest with every construct named (first deviation of
            # each construct's name choice point)
            vec = []
            ch0, _ = explore.run(scenarios.nest_scenario(seq), ())
            named = tuple(1 if tag == "cname" else 0 for (n_, tag, c) in ch0.trace)
            try:
                ch1, prog1 = explore.run(scenarios.nest_scenario(seq), named)
                yield "B/" + "-".join(seq) + "/named", prog1
            except explore.Divergence:
                pass


VARIANTS = [("plain", None, True), ("cpp", "#define X 1", True), ("include", " include 'no_such_file.inc'", True), ("comment", " ! kept comment", False)]


def with_variant(text, extra):
    """a kept line (CPP line, unresolved INCLUDE, comment) before every line"""
    if extra is None:
        return text
    out = []
    for l in text.rstrip("\n").split("\n"):
        out.append(extra)
        out.append(l)
    return "\n".join(out) + "\n"


def judge(text, std, ic=True):
    o = try_parse(text, std, ignore_comments=ic)
    if o.ok:
        return "accepted", "parse returned a tree:\n%s" % str(o.tree)
    return None, o.klass()


def run(task):
    res = Result()
    for pid, prog in progs_of(task):
        std = G.prog_std(prog)
        ok0 = try_parse(text_of(prog), std)
        if not ok0.ok:
            res.violation("C08|model:base-rejected|" + pid, str(ok0.msg), {"text": text_of(prog), "std": std, "edit": "none"})
            continue
        n = 0
        for kind, desc, text in edits(prog):
            n += 1
            if task[0] == "E" and n % 4 != task[2]:
                continue
            res.evals += 1
            res.transitions += 1
            hk = h64(text, std)
            res.states.add(hk)
            res.nontrivial.add(hk)
            v, info = judge(text, std)
            res.outcomes[v or ("rejected:" + info)] += 1
            res.counters["edit:" + kind.split(":")[0]] += 1
            if v:
                res.violation("C08|accepted|%s" % kind, "%s: %s\n%s\n--- edited source:\n%s" % (pid, desc, info, text), {"text": text, "std": std, "edit": kind}, cost=len(text))
            # the same edit with a kept line (CPP / unresolved INCLUDE /
            # retained comment) in front of every statement: name and label
            # checks must not be thrown off by nodes collected before an opener
            if kind.split(":")[0] in ("rename-end", "add-end-name", "rename-mid", "delete-closer", "delete-opener", "duplicate-end") and (task[0] == "E" or len(prog) <= 12):
                for vname, extra, ic in VARIANTS[1:]:
                    vt = with_variant(text, extra)
                    res.evals += 1
                    res.transitions += 1
                    res.states.add(h64(vt, std, vname))
                    v2, info2 = judge(vt, std, ic)
                    res.outcomes[(v2 or ("rejected:" + info2)) + "/" + vname] += 1
                    if v2:
                        res.violation("C08|accepted|%s|with-%s-lines" % (kind, vname), "%s: %s (%s line before every statement)\n%s\n--- edited source:\n%s" % (pid, desc, vname, info2, vt), {"text": vt, "std": std, "edit": kind + "|with-%s-lines" % vname, "ic": ic}, cost=len(vt))
            if res.evals % 800 == 1:
                res.sample({"program": pid, "edit": desc, "source": text})
    return res


def replay(case):
    v, info = judge(case["text"], case["std"], case.get("ic", True))
    return [{"sig": "C08|accepted|%s" % case["edit"], "detail": info}] if v else []
