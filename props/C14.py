"""C14 - preprocessor directives are kept as nodes and do not disturb the
Fortran."""
from mc import corpus, scenarios, explore
from mc import grammar as G
from mc.base import try_parse, canon, text_of, h64, walk, Base, first_diff, FortranStringReader, renumber_blocks
from mc.runner import Result

ID = "C14"
RULE = (
    "for corpus programs and construct nests, E1 enumerates every insertion of <= k C-preprocessor "
    "lines at statement gaps (any depth, before the first and after the last statement): 16 directive "
    "forms x {plain | backslash-continued | leading blanks | blanks after '#'}; plus 'a directive in "
    "every gap'; x ignore_comments; plus a fixed-form rendering with one inserted directive. Oracles: "
    "the tree with Cpp_* nodes (and wrappers left empty) removed == tree of the directive-free source; "
    "the Cpp_* nodes in walk order == the inserted directives with equal payload; every directive's "
    "text is in str(tree). Non-trivial = >= 1 directive inserted."
)
ASSUMPTIONS = ["directive payload equality is modulo blanks after '#' and at backslash line joins", "corpus E + layer-B nests"]
BOUNDS = {"quick": dict(corpus_k=1, nest_depth=1, nest_k=2, nest_forms=6), "thorough": dict(corpus_k=1, corpus_k2=["P5", "P6", "P8"], nest_depth=2, nest_k=2, nest_forms=16)}

FORMS = [
    ("#if", "defined(A) && B > 1"),
    ("#ifdef", "A_MACRO"),
    ("#else", ""),
    ("#endif", ""),
    ("#define", "X 1"),
    ("#include", '"file.h"'),
    ("#ifndef", "A_MACRO"),
    ("#elif", "C == 2"),
    ("#include", "<sys/file.h>"),
    ("#define", "F(a,b) a+b"),
    ("#undef", "X"),
    ("#line", "12"),
    ("#error", "some message here"),
    ("#warning", "careful 'quoted"),
    ("#", ""),
    ("#", '12 "file.f90"'),
    ("#if", "!defined(A_MACRO)"),  # a '!' in columns 2-5: not a comment
    ("#if", "! defined(B)"),
]
RENDER = ["plain", "continued", "leading", "after-hash", "continued3"]


def render_directive(form, mode):
    """returns (physical lines, payload tokens)"""
    word, arg = form
    payload = (word + " " + arg).split()
    if word == "#" and arg:
        text = "# " + arg
    else:
        text = word + (" " + arg if arg else "")
    if mode == "plain" or (mode == "continued" and " " not in text):
        return [text], payload
    if mode == "continued":
        k = text.rindex(" ")
        return [text[:k] + " \\", "   " + text[k + 1 :]], payload
    if mode == "continued3":
        parts = text.split(" ")
        if len(parts) < 3:
            return [text], payload
        a, b, c = parts[0], " ".join(parts[1:-1]), parts[-1]
        return [a + " \\", "  " + b + " \\", "     " + c], payload
    if mode == "leading":
        return ["   " + text], payload
    if mode == "after-hash":
        if word == "#":
            return [text], payload
        return ["#  " + text[1:]], payload
    raise ValueError(mode)


def insert(prog, ch, nforms, every_gap=False):
    ds = corpus.depths(prog)
    stmts = [(s, d) for s, d in zip(prog, ds) if s.kind != "program_anon"]
    lines = []
    placed = []  # payloads in order
    forms = FORMS[:nforms]

    def gap(i):
        if every_gap:
            f = forms[i % len(forms)]
            ls, pl = render_directive(f, RENDER[i % len(RENDER)])
            lines.extend(ls)
            placed.append(pl)
            return
        c = ch.choose(1 + len(forms), "gap")
        if c:
            m = ch.choose(len(RENDER), "render")
            ls, pl = render_directive(forms[c - 1], RENDER[m])
            lines.extend(ls)
            placed.append(pl)

    for i, (s, d) in enumerate(stmts):
        gap(i)
        lines.append(" " * (1 + 2 * d) + s.line())
    gap(len(stmts))
    return "\n".join(lines) + "\n", placed


def struct(node, skip_cpp=True):
    """nested structure of the tree without Cpp_* nodes and without the
    nodes left empty by their removal"""
    if isinstance(node, Base):
        name = type(node).__name__
        if skip_cpp and name.startswith("Cpp_"):
            return None
        kids = []
        had = False
        ch = node.children
        for c in ch:
            had = True
            s = struct(c, skip_cpp)
            if s is not None or not isinstance(c, (Base, list, tuple)):
                kids.append(s if isinstance(c, (Base, list, tuple)) else repr(c))
        if had and not kids and hasattr(node, "content"):
            return None
        return (name, tuple(kids))
    if isinstance(node, (list, tuple)):
        out = []
        for c in node:
            s = struct(c, skip_cpp)
            if isinstance(c, Base) and s is None:
                continue
            out.append(s if isinstance(c, (Base, list, tuple)) else repr(c))
        return tuple(out)
    return repr(node)


def cpp_nodes(tree):
    return [n for n in walk(tree) if isinstance(n, Base) and type(n).__name__.startswith("Cpp_") and type(n).__name__.endswith("_Stmt")]


def judge(src, placed, base_struct, base_lines, std, ic):
    out = []
    o = try_parse(src, std, ignore_comments=ic)
    if not o.ok:
        return [("rejected:" + o.klass(), (o.msg or "")[:200])]
    nodes = cpp_nodes(o.tree)
    got = [str(n).split() for n in nodes]
    want = [list(p) for p in placed]

    def norm(p):
        s = "".join(p).replace("#", "# ", 1).replace(" ", "")  # case-sensitive: the C preprocessor is
        return s

    def angle(p):
        return norm(p).replace("<", '"').replace(">", '"')

    if [norm(g) for g in got] != [norm(w) for w in want] and [angle(g) for g in got] == [angle(w) for w in want]:
        out.append(("directive-payload:include-angle-brackets-become-quotes", "Cpp nodes %r\ninserted  %r" % ([" ".join(g) for g in got], [" ".join(w) for w in want])))
    elif [norm(g) for g in got] != [norm(w) for w in want]:
        out.append(("directive-nodes", "Cpp nodes %r\ninserted  %r" % ([" ".join(g) for g in got], [" ".join(w) for w in want])))
    text = text_of(o.tree)
    tl = [l.strip() for l in text.split("\n") if l.strip()]
    code = [l for l in tl if not l.startswith("#")]
    if code != base_lines:
        out.append(("code-text-differs", "non-directive lines of str(tree) differ from str(parse(P))"))
    dl = [norm(l.split()) for l in tl if l.startswith("#")]
    if dl != [norm(w) for w in want] and not any(k.startswith("directive-") for k, _ in out):
        out.append(("directive-text", "directive lines printed %r, inserted %r" % ([l for l in tl if l.startswith("#")], [" ".join(w) for w in want])))
    st = struct(o.tree)
    if renumber_blocks(repr(st)) != renumber_blocks(repr(base_struct)):
        out.append(("structure-differs", "tree without Cpp nodes differs from tree of P; " + first_diff(renumber_blocks(repr(st)), renumber_blocks(repr(base_struct)))))
    return out


def plan(tier, seed):
    b = BOUNDS[tier]
    tasks = []
    for pid in sorted(corpus.corpus()):
        k = 2 if (b["corpus_k"] == 2 or pid in b.get("corpus_k2", [])) else b["corpus_k"]
        for sh in range(4):
            tasks.append(("E", tier, pid, k, sh, 4))
    names = [n for n, _ in G.EXEC_CONSTRUCTS]
    for d in range(1, b["nest_depth"] + 1):
        for first in names:
            tasks.append(("B", tier, first, d))
    tasks.append(("FIX", tier))
    for pid in ("P6", "P5") if tier == "quick" else sorted(corpus.corpus()):
        tasks.append(("CS", tier, pid))
    return tasks


def progs_of(task):
    if task[0] == "E":
        yield "E/" + task[2], corpus.corpus()[task[2]], task[3], len(FORMS), task[4], task[5]
    else:
        b = BOUNDS[task[1]]
        for seq in scenarios.kind_sequences(task[2], task[3]):
            ch, prog = explore.run(scenarios.nest_scenario(seq), ())
            # depth-2 nests (225 sequences): one directive at a time
            yield "B/" + "-".join(seq), prog, (b["nest_k"] if task[3] == 1 else 1), b["nest_forms"], 0, 1


def sig(kind, placed, extra=""):
    words = sorted(set(p[0] if p[0] != "#" else ("#null" if len(p) == 1 else "#linemarker") for p in placed))
    return "C14|%s|%s%s" % (kind, ",".join(words), extra)


def fixed_text(prog):
    lines = []
    for s in prog:
        if s.kind == "program_anon":
            continue
        lab = (s.label or "").ljust(5)
        lines.append(lab + " " + (s.name + ": " if s.name else "") + s.text)
    return lines


def case_variants(form):
    """directives that differ from `form` in letter case only (the C
    preprocessor is case sensitive: they are different directives)"""
    word, arg = form
    out = []
    for v in (arg.swapcase(), arg.lower(), arg.upper()):
        if v != arg and (word, v) not in out:
            out.append((word, v))
    return out


def run_case_layer(res, task):
    """two directives equal up to letter case: in one source (both orders, all
    pairs of a few gaps) and in two successive parses of one process"""
    _, tier, pid = task
    prog = corpus.corpus()[pid]
    std = G.prog_std(prog)
    # (without whitespace-only lines: the virtual opener of an anonymous main
    # program is rendered as one, and with comments kept a blank line behind a
    # directive is a Comment('') node of its own)
    lines = [l for l in corpus.render(prog).rstrip("\n").split("\n") if l.strip()]
    base_src = "\n".join(lines) + "\n"
    o0 = try_parse(base_src, std)
    base_struct = struct(o0.tree)
    base_lines = [l.strip() for l in text_of(o0.tree).split("\n") if l.strip()]
    n = len(lines)
    gaps = sorted(set([0, 1, n // 2, n - 1, n]))
    modes = ["plain"] if tier == "quick" else ["plain", "continued"]
    for form in FORMS:
        for var in case_variants(form):
            for mode in modes:
                l1, p1 = render_directive(form, mode)
                l2, p2 = render_directive(var, mode)
                for ic in (True, False) if tier != "quick" else (True,):
                    # (a) one source
                    for g1 in gaps:
                        for g2 in gaps:
                            if g2 < g1:
                                continue
                            for (la, pa), (lb, pb) in (((l1, p1), (l2, p2)), ((l2, p2), (l1, p1))):
                                src = "\n".join(lines[:g1] + la + lines[g1:g2] + lb + lines[g2:]) + "\n"
                                res.evals += 1
                                res.transitions += 1
                                hk = h64(src, std, str(ic))
                                res.states.add(hk)
                                res.nontrivial.add(hk)
                                res.results.add(hk)
                                vs = judge(src, [pa, pb], base_struct, base_lines, std, ic)
                                res.outcomes["case-pair:" + ("ok" if not vs else vs[0][0])] += 1
                                for kind, detail in vs:
                                    res.violation(sig(kind, [pa, pb], "|case-pair"), "%s std=%s ic=%s\n%s\n--- source:\n%s" % (pid, std, ic, detail, src), {"src": src, "placed": [pa, pb], "base": base_src, "std": std, "ic": ic, "extra": "|case-pair"}, cost=len(src))
                    # (b) two parses, the second judged
                    for g in gaps[:3]:
                        for (la, pa), (lb, pb) in (((l1, p1), (l2, p2)), ((l2, p2), (l1, p1))):
                            first = "\n".join(lines[:g] + la + lines[g:]) + "\n"
                            src = "\n".join(lines[:g] + lb + lines[g:]) + "\n"
                            try_parse(first, std, ignore_comments=ic)
                            res.evals += 1
                            res.transitions += 2
                            hk = h64(first, src, std, str(ic))
                            res.states.add(hk)
                            res.nontrivial.add(hk)
                            vs = judge(src, [pb], base_struct, base_lines, std, ic)
                            res.outcomes["case-history:" + ("ok" if not vs else vs[0][0])] += 1
                            for kind, detail in vs:
                                res.violation(sig(kind, [pb], "|case-history"), "%s std=%s ic=%s: parse of\n%s\nthen parse of the source below\n%s\n--- source:\n%s" % (pid, std, ic, first, detail, src), {"src": src, "placed": [pb], "base": base_src, "std": std, "ic": ic, "before": first}, cost=len(src) + len(first))
    res.sample({"program": pid, "pair": [" ".join(FORMS[1]), " ".join(case_variants(FORMS[1])[0])]})
    return res


def run(task):
    res = Result()
    if task[0] == "CS":
        return run_case_layer(res, task)
    if task[0] == "FIX":
        # fixed-form leg: one inserted directive at every gap
        for pid, prog in sorted(corpus.corpus().items()):
            std = G.prog_std(prog)
            fl = fixed_text(prog)
            if any(len(l) > 72 for l in fl):
                continue
            o0 = try_parse("\n".join(fl) + "\n", std)
            if not o0.ok:
                continue
            base_struct = struct(o0.tree)
            base_lines = [l.strip() for l in text_of(o0.tree).split("\n") if l.strip()]
            for gi in range(0, len(fl) + 1, 3):
                for fi, form, lead in [(fi, form, lead) for fi, form in enumerate(FORMS[:8] + FORMS[16:]) for lead in (("", " ", "  ", "    ") if fi < 3 else ("", "   "))]:
                    ls, pl = render_directive(form, "plain")
                    ls = [lead + ls[0]] + ls[1:]  # blanks before '#' (cpp allows them)
                    src = "\n".join(fl[:gi] + ls + fl[gi:]) + "\n"
                    res.evals += 1
                    res.transitions += 1
                    hk = h64(src, std)
                    res.states.add(hk)
                    res.nontrivial.add(hk)
                    mode = FortranStringReader(src).format.mode
                    vs = []
                    if mode != "fix":
                        vs = [("fixed-form-seen-as-" + mode, "a CPP line makes the fixed-form source be classified %r" % mode)]
                    else:
                        vs = judge(src, [pl], base_struct, base_lines, std, True)
                    res.outcomes["fixed:" + ("ok" if not vs else vs[0][0])] += 1
                    for kind, detail in vs:
                        res.violation(sig(kind, [pl], "|fixed-form"), "%s fixed form, directive %r before line %d\n%s\n--- source:\n%s" % (pid, ls, gi + 1, detail, src), {"src": src, "placed": [pl], "base": "\n".join(fl) + "\n", "std": std, "ic": True, "fixed": True}, cost=len(src))
        return res
    for pid, prog, k, nforms, shard, nshards in progs_of(task):
        std = G.prog_std(prog)
        base_src = corpus.render(prog)
        o0 = try_parse(base_src, std)
        if not o0.ok:
            res.violation("C14|model:base-rejected|" + pid, str(o0.msg), {"src": base_src, "placed": [], "base": base_src, "std": std, "ic": True})
            continue
        base_struct = struct(o0.tree)
        base_lines = [l.strip() for l in text_of(o0.tree).split("\n") if l.strip()]
        stats = {}
        n = 0
        gen = list(explore.explore(lambda ch: insert(prog, ch, nforms), k, stats))
        ch0 = explore.Chooser(())
        gen.append((("every-gap",), ch0, insert(prog, ch0, nforms, every_gap=True)))
        for vec, ch, (src, placed) in gen:
            n += 1
            if n % nshards != shard:
                continue
            for ic in (True, False):
                res.evals += 1
                hk = h64(src, std, str(ic))
                res.states.add(hk)
                if placed:
                    res.nontrivial.add(hk)
                vs = judge(src, placed, base_struct, base_lines, std, ic)
                res.outcomes["ok" if not vs else vs[0][0]] += 1
                res.results.add(hk)
                for kind, detail in vs:
                    res.violation(sig(kind, placed), "%s vec=%s std=%s ic=%s\n%s\n--- source:\n%s" % (pid, list(vec), std, ic, detail, src), {"src": src, "placed": placed, "base": base_src, "std": std, "ic": ic}, cost=len(placed) * 100000 + len(src))
            if res.evals % 600 == 1:
                res.sample({"program": pid, "inserted": [" ".join(p) for p in placed], "source": src})
        if shard == 0:
            res.transitions += stats.get("decisions", 0)
    return res


def replay(case):
    o0 = try_parse(case["base"], case["std"])
    base_struct = struct(o0.tree)
    base_lines = [l.strip() for l in text_of(o0.tree).split("\n") if l.strip()]
    placed = [list(p) for p in case["placed"]]
    if case.get("before"):
        try_parse(case["before"], case["std"], ignore_comments=case["ic"])
        return [{"sig": sig(k, placed, "|case-history"), "detail": d} for k, d in judge(case["src"], placed, base_struct, base_lines, case["std"], case["ic"])]
    if case.get("fixed"):
        mode = FortranStringReader(case["src"]).format.mode
        if mode != "fix":
            return [{"sig": sig("fixed-form-seen-as-" + mode, placed, "|fixed-form"), "detail": mode}]
        return [{"sig": sig(k, placed, "|fixed-form"), "detail": d} for k, d in judge(case["src"], placed, base_struct, base_lines, case["std"], True)]
    return [{"sig": sig(k, placed, case.get("extra", "")), "detail": d} for k, d in judge(case["src"], placed, base_struct, base_lines, case["std"], case["ic"])]
