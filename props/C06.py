"""C06 - parsing ends in a tree or a FortranSyntaxError, for any input."""
import os
import re
import shutil
import tempfile
import itertools
from mc import corpus, explore, lexer
from mc import grammar as G
from mc.base import try_parse, h64, mask_digits, FortranFileReader, parser_for, with_timeout, Outcome
from mc.runner import Result

ID = "C06"
RULE = (
    "exhaustive mutation enumeration: (a) every single token mutation {delete, duplicate, swap with "
    "next, replace by / insert before each string of a punctuation/keyword/fragment alphabet} of every "
    "layer-A template program and of corpus programs; (b) every line deletion / duplication / adjacent "
    "swap; (c) all PAIRS of token mutations on small templates (thorough); (d) ALL token strings of "
    "length <= L over a 24-symbol alphabet placed as one statement; (e) every single-byte replacement "
    "of a small file by bytes that are not valid UTF-8, read through FortranFileReader; (f) a trailing comment after each statement (and after all) of every template and corpus program, comments kept and dropped; x std x "
    "ignore_comments. Oracle: parse (and str of the tree) returns, or raises FortranSyntaxError, "
    "within 20 s. Non-trivial = mutant differs from the base program."
)
ASSUMPTIONS = ["inputs are the enumerated mutants only; arbitrary binary input is represented by the invalid-UTF-8 byte set"]
BOUNDS = {
    "quick": dict(alphabet=20, corpus=["P1", "P5", "P7"], corpus_alphabet=8, strings_len=3, template_k=0, pairs=False),
    "thorough": dict(alphabet=45, corpus="all", corpus_alphabet=20, strings_len=4, template_k=1, pairs=True),
}

ALPHABET = [
    "(", ")", ",", "=", ":", "::", "'", '"', "&", "!", ";", "%", "*", "/", "end", "if", "then", "do", "10", ".",
    "**", "//", "[", "]", "=>", "1.e", "(/", "3h", "'a", "/)", "else", "use", "call", "integer", "&&", "+", "-", "<", "==", ".and.",
    "_", "$", "#", "1_", "x'",
]
CORPUS_ALPHABET_FIRST = ["(", ")", ",", "=", ":", "'", "end", "&", "::", ";", "do", "!", "%", "if", "10", "*", "/", ".", "then", "=>"]
STRING_SYMBOLS = ["a", "1", "(", ")", ",", "=", ":", "::", "'", "&", ";", "%", "*", "/", "+", ".", "end", "if", "do", "integer", "call", "=>", "then", "1.e"]


def tokens_of_prog(prog):
    """list of (stmt_index, token_index, text) and per-statement token lists"""
    stmts = []
    for s in prog:
        if s.kind == "program_anon":
            stmts.append([])
            continue
        toks = []
        if s.label:
            toks.append(s.label)
        if s.name:
            toks += [s.name, ":"]
        toks += [t for _, t in lexer.lex(s.text)]
        stmts.append(toks)
    return stmts


def join(toks):
    out = ""
    for i, t in enumerate(toks):
        if i and (re.match(r"\w", t[:1] or " ") and re.match(r"\w", out[-1:] or " ")):
            out += " "
        elif i and t not in (",", ")", "(", ":", "%") and out[-1:] not in ("(", "%"):
            out += " "
        out += t
    return out


def render(stmts):
    return "\n".join("  " + join(t) for t in stmts if t) + "\n"


def token_mutants(stmts, alphabet, only=None):
    """yield (description, mutated stmts)"""
    for si, toks in enumerate(stmts):
        if only is not None and si not in only:
            continue
        for ti in range(len(toks)):
            def mk(new):
                return stmts[:si] + [new] + stmts[si + 1 :]

            yield "del", (si, ti), mk(toks[:ti] + toks[ti + 1 :])
            yield "dup", (si, ti), mk(toks[: ti + 1] + toks[ti:])
            if ti + 1 < len(toks):
                yield "swap", (si, ti), mk(toks[:ti] + [toks[ti + 1], toks[ti]] + toks[ti + 2 :])
            for a in alphabet:
                if a != toks[ti]:
                    yield "rep:" + a, (si, ti), mk(toks[:ti] + [a] + toks[ti + 1 :])
                yield "ins:" + a, (si, ti), mk(toks[:ti] + [a] + toks[ti:])
        for a in alphabet:
            yield "app:" + a, (si, len(toks)), stmts[:si] + [toks + [a]] + stmts[si + 1 :]


def line_mutants(stmts):
    n = len(stmts)
    for i in range(n):
        yield "linedel", (i, 0), stmts[:i] + stmts[i + 1 :]
        yield "linedup", (i, 0), stmts[: i + 1] + stmts[i:]
        if i + 1 < n:
            yield "lineswap", (i, 0), stmts[:i] + [stmts[i + 1], stmts[i]] + stmts[i + 2 :]


def classify(o):
    """None if the outcome is allowed, else (signature, detail)"""
    if o.ok:
        return None
    if o.exc_type == "FortranSyntaxError":
        return None
    import traceback

    frames = traceback.extract_tb(o.exc.__traceback__)
    chain = ["%s:%s" % (os.path.basename(f.filename)[:-3], f.name) for f in frames if "/fparser/" in f.filename]
    where = chain[-1] if chain else "harness"
    if where == "readfortran:error" and len(chain) > 1:
        where = chain[-2] + ">error"
    # the rule class whose match() was running (first frame named match, innermost)
    rule = "?"
    for f in reversed(frames):
        if "/fparser/two/" in f.filename and f.name == "match":
            rule = "%s:%d" % (os.path.basename(f.filename)[:-3], 0)
            # qualify by source line text to identify the class
            rule = _owner(f.filename, f.lineno)
            break
    if o.exc_type == "CaseTimeout":
        # where the alarm happened to interrupt the parse is not part of the finding
        return "C06|timeout|no result within 20 s", "the parse did not return within 20 s (interrupted in %s, rule %s)" % (where, rule)
    return "C06|escape|%s|%s|%s" % (o.exc_type, where, rule), "%s: %s" % (o.exc_type, mask_digits((o.msg or "")[:160]))


_owner_cache = {}


def _owner(filename, lineno):
    key = (filename, lineno)
    if key not in _owner_cache:
        cls = "?"
        try:
            with open(filename) as f:
                lines = f.readlines()
            for i in range(min(lineno, len(lines)) - 1, -1, -1):
                m = re.match(r"class (\w+)", lines[i])
                if m:
                    cls = m.group(1)
                    break
        except OSError:
            pass
        _owner_cache[key] = cls
    return _owner_cache[key]


def run_one(res, text, std, ic, desc, base_text):
    res.evals += 1
    res.transitions += 1
    hk = h64(text, std, str(ic))
    res.states.add(hk)
    if text != base_text:
        res.nontrivial.add(hk)
    o = try_parse(text, std, ignore_comments=ic)
    if o.ok:
        try:
            with_timeout(20.0, str, o.tree)
        except BaseException as e:
            o = Outcome(exc=e)
    res.outcomes[o.klass() if not o.ok else "tree"] += 1
    v = classify(o)
    if v:
        res.violation(v[0], "%s std=%s ic=%s\n%s\n--- input:\n%s" % (desc, std, ic, v[1], text), {"text": text, "std": std, "ic": ic}, cost=len(text))


def plan(tier, seed):
    b = BOUNDS[tier]
    tasks = []
    ts = G.templates()
    for j in range(0, len(ts), 4):
        tasks.append(("A", tier, tuple(t[0] for t in ts[j : j + 4])))
    names = sorted(corpus.corpus()) if b["corpus"] == "all" else b["corpus"]
    for pid in names:
        n = len(corpus.corpus()[pid])
        for lo in range(0, n, 6):
            tasks.append(("E", tier, pid, lo, min(n, lo + 6)))
        tasks.append(("EL", tier, pid))
    syms = STRING_SYMBOLS
    for first in syms:
        tasks.append(("D", tier, first))
    tasks.append(("U", tier))
    tasks.append(("H", tier))
    # specification constructs (derived types with parameters / bindings,
    # interfaces, enums) as mutation bases
    for cname, _ in G.SPEC_CONSTRUCTS:
        tasks.append(("SC", tier, cname))
    # valid programs with comment / unresolved INCLUDE / preprocessor lines in
    # the gaps (inputs a robust parser meets constantly), also as mutation bases
    names_b = [n for n, _ in G.EXEC_CONSTRUCTS]
    for d in (1, 2):
        for first in names_b:
            tasks.append(("V", tier, "B", first, d))
    for pid in sorted(corpus.corpus()):
        tasks.append(("V", tier, "E", pid, 0))
    # trailing comments after every statement of every template program (and
    # of the corpus), comments kept and dropped
    for j in range(0, len(ts), 24):
        tasks.append(("T", tier, tuple(t[0] for t in ts[j : j + 24])))
    tasks.append(("T", tier, ("@corpus",)))
    if b["pairs"]:
        for j in range(0, len(ts), 2):
            tasks.append(("P", tier, tuple(t[0] for t in ts[j : j + 2])))
    return tasks


def run(task):
    res = Result()
    kind, tier = task[0], task[1]
    b = BOUNDS[tier]
    if kind == "A":
        alphabet = ALPHABET[: b["alphabet"]]
        tmap = {t[0]: t for t in G.templates()}
        for tid in task[2]:
            sc = G.template_scenario(*tmap[tid])
            for vec, ch, prog in explore.explore(sc, b["template_k"]):
                stmts = tokens_of_prog(prog)
                base = render(stmts)
                probe = set(i for i, s in enumerate(prog) if "probe" in s.tags)
                stds = ("f2003", "f2008")
                for desc, pos, m in itertools.chain(token_mutants(stmts, alphabet, only=probe), line_mutants(stmts)):
                    text = render(m)
                    run_one(res, text, "f2008", True, "%s %s@%s" % (tid, desc, pos), base)
                    light = tier == "quick" and not (desc in ("del", "dup", "swap") or desc.startswith("line") or desc.split(":", 1)[-1] in alphabet[:8])
                    if not light:
                        run_one(res, text, "f2003", True, "%s %s@%s" % (tid, desc, pos), base)
                    if desc in ("del", "dup", "swap"):
                        run_one(res, text, "f2008", False, "%s %s@%s" % (tid, desc, pos), base)
            res.sample({"template": tid, "mutant": render(next(iter(token_mutants(stmts, alphabet, only=probe)))[2])})
    elif kind == "E":
        _, _, pid, lo, hi = task
        prog = corpus.corpus()[pid]
        stmts = tokens_of_prog(prog)
        base = render(stmts)
        alphabet = CORPUS_ALPHABET_FIRST[: b["corpus_alphabet"]]
        std = G.prog_std(prog)
        for desc, pos, m in token_mutants(stmts, alphabet, only=set(range(lo, hi))):
            run_one(res, render(m), std, True, "%s %s@%s" % (pid, desc, pos), base)
    elif kind == "EL":
        prog = corpus.corpus()[task[2]]
        stmts = tokens_of_prog(prog)
        base = render(stmts)
        for std in G.stds_for(prog):
            for ic in (True, False):
                for desc, pos, m in line_mutants(stmts):
                    run_one(res, render(m), std, ic, "%s %s@%s" % (task[2], desc, pos), base)
    elif kind == "D":
        first = task[2]
        L = b["strings_len"]
        for n in range(1, L + 1):
            for rest in itertools.product(STRING_SYMBOLS, repeat=n - 1):
                toks = [first] + list(rest)
                text = "  subroutine s\n  %s\n  end subroutine s\n" % join(toks)
                for std in ("f2003", "f2008"):
                    run_one(res, text, std, True, "string %r" % (toks,), "")
        res.sample({"token_string": [first, "(", "a"], "input": "  subroutine s\n  %s\n  end subroutine s\n" % join([first, "(", "a"])})
    elif kind == "U":
        base = b"program p\n  character(len=3) :: s = 'abc' ! comment\n  print *, s\nend program p\n"
        tmp = tempfile.mkdtemp(prefix="c06_")
        try:
            for pos in range(len(base)):
                for bad in (b"\x80", b"\xc3", b"\xff", b"\xe2\x28"):
                    data = base[:pos] + bad + base[pos + 1 :]
                    path = os.path.join(tmp, "u.f90")
                    with open(path, "wb") as f:
                        f.write(data)
                    for std in ("f2003", "f2008"):
                        res.evals += 1
                        res.transitions += 1
                        hk = h64(data, std)
                        res.states.add(hk)
                        res.nontrivial.add(hk)
                        o = try_parse(None, std, reader_factory=lambda: FortranFileReader(path))
                        res.outcomes[o.klass() if not o.ok else "tree"] += 1
                        v = classify(o)
                        if v:
                            res.violation(v[0] + "|bytes", "byte %d replaced by %r std=%s\n%s" % (pos, bad, std, v[1]), {"bytes": data.decode("latin-1"), "std": std}, cost=pos)
            res.sample({"file_bytes": repr(base[:20] + b"\xff" + base[21:40])})
        finally:
            shutil.rmtree(tmp, ignore_errors=True)
    elif kind == "SC":
        from mc import scenarios

        alphabet = ALPHABET[: b["alphabet"]]
        sc = scenarios.spec_scenario("module", task[2])
        for vec, ch, prog in explore.explore(sc, 1):
            stmts = tokens_of_prog(prog)
            base = render(stmts)
            inner = set(range(1, len(prog) - 1))
            for desc, pos, m in itertools.chain(token_mutants(stmts, alphabet[:5] if vec else alphabet[:10], only=inner), line_mutants(stmts)):
                run_one(res, render(m), "f2008", True, "S/%s%s %s@%s" % (task[2], list(vec), desc, pos), base)
        res.sample({"spec_construct": task[2], "base": base})
    elif kind == "H":
        # sequences of parses with ONE parser object (no table clearing in
        # between) and texts that repeat a unit name - unit names in mixed case
        from fparser.two.parser import ParserFactory
        from mc.base import FortranStringReader, forget_parser

        units = [
            " module Shared_Data\n  integer :: nVal\n end module Shared_Data\n",
            " program Heat_Flow\n  use Shared_Data\n  nVal = 1\n end program Heat_Flow\n",
            " subroutine DoIt(a)\n  a = 1\n end subroutine DoIt\n",
            " function Fn(x)\n  Fn = x\n end function Fn\n",
            " block data Bd\n  common /cb/ a\n end block data Bd\n",
            " module Outer\n contains\n  subroutine Inner()\n  end subroutine Inner\n end module Outer\n",
        ]
        seqs = []
        for u in units:
            seqs.append([u, u])
            seqs.append([u, u.upper()])
            seqs.append([u + u])
            seqs.append([u, u + u.lower(), u])
        seqs.append(units + units)
        for std in ("f2003", "f2008"):
            for ic in (True, False):
                for seq in seqs:
                    forget_parser()
                    p = ParserFactory().create(std=std)
                    for k, text in enumerate(seq):
                        res.evals += 1
                        res.transitions += 1
                        hk = h64(repr(seq[: k + 1]), std, str(ic))
                        res.states.add(hk)
                        res.nontrivial.add(hk)
                        try:
                            tree = with_timeout(20.0, lambda: p(FortranStringReader(text, ignore_comments=ic)))
                            str(tree)
                            o = Outcome(tree=tree)
                        except BaseException as e:
                            o = Outcome(exc=e)
                        res.outcomes[o.klass() if not o.ok else "tree"] += 1
                        v = classify(o)
                        if v:
                            res.violation(v[0] + "|history", "parse number %d with one parser object (std=%s ic=%s); texts so far:\n%s\n%s" % (k + 1, std, ic, "\n---\n".join(seq[: k + 1]), v[1]), {"history": seq[: k + 1], "std": std, "ic": ic}, cost=k * 1000 + len(text))
        forget_parser()
        res.sample({"history": [units[0], units[0].upper()]})
    elif kind == "V":
        from mc import scenarios

        _, _, layer, what, d = task
        if layer == "E":
            progs = [("E/" + what, corpus.corpus()[what])]
        else:
            progs = []
            for seq in scenarios.kind_sequences(what, d):
                ch, prog = explore.run(scenarios.nest_scenario(seq), ())
                progs.append(("B/" + "-".join(seq), prog))
        extras = ["! a comment", "include 'no_such_file.inc'", "#define X 1", "!$omp parallel", "#ifdef X", "", "#pragma once", "#ifdef", "#(x", "#define Y 2 \\"]  # unknown / malformed preprocessor lines; a directive ending in the continuation backslash (also as the LAST line of the input)
        for pid, prog in progs:
            stmts = [s.line() for s in prog if s.kind != "program_anon"]
            base = "\n".join(" " + l for l in stmts) + "\n"
            stds = G.stds_for(prog)
            light = tier == "quick" and (d == 2 or layer == "E")
            if light:
                stds = stds[-1:]
            n = len(stmts)
            step = 1 if layer == "B" else 3
            for gi in range(0, n + 1, step):
                for ex in (extras[:3] if light else extras):
                    text = "\n".join([" " + l for l in stmts[:gi]] + [ex if ex.startswith("#") else " " + ex] + [" " + l for l in stmts[gi:]]) + "\n"
                    for std in stds:
                        for ic in (True, False):
                            run_one(res, text, std, ic, "%s + %r before statement %d" % (pid, ex, gi + 1), base)
            # every gap filled
            for ex in extras[:4]:
                lines = []
                for l in stmts:
                    lines.append(ex if ex.startswith("#") else " " + ex)
                    lines.append(" " + l)
                text = "\n".join(lines) + "\n"
                for std in stds:
                    for ic in (True, False):
                        run_one(res, text, std, ic, "%s + %r in every gap" % (pid, ex), base)
        res.sample({"program": progs[0][0], "input": "\n".join([" " + l for l in stmts[:2]] + ["#define X 1"] + [" " + l for l in stmts[2:4]])})
    elif kind == "T":
        tmap = {t[0]: t for t in G.templates()}
        if task[2] == ("@corpus",):
            progs = [("E/" + pid, pr) for pid, pr in sorted(corpus.corpus().items())]
        else:
            progs = [(tid, explore.run(G.template_scenario(*tmap[tid]), ())[1]) for tid in task[2]]
        comments = ["! note", "! it's", "!$omp x"] if tier != "quick" else ["! note"]
        for pid, prog in progs:
            lines = [s.line() for s in prog if s.kind != "program_anon"]
            base = "\n".join(" " + l for l in lines) + "\n"
            stds = G.stds_for(prog)
            where = list(range(len(lines))) + ["all"]
            if task[2] == ("@corpus",) and tier == "quick":
                where = [0, 1, "all"]
            for wi in where:
                for c in comments:
                    text = "\n".join(" " + l + (" " + c if (wi == "all" or wi == i) else "") for i, l in enumerate(lines)) + "\n"
                    for std in stds:
                        for ic in (False, True):
                            run_one(res, text, std, ic, "%s + trailing comment %r after statement %s" % (pid, c, wi if wi == "all" else wi + 1), base)
        res.sample({"program": progs[0][0], "input": "\n".join(" " + l + " ! note" for l in [s.line() for s in progs[0][1] if s.kind != "program_anon"])})
    elif kind == "P":
        alphabet = ["(", ")", ",", "=", ":", "'", "end", "&"]
        tmap = {t[0]: t for t in G.templates()}
        for tid in task[2]:
            ch, prog = explore.run(G.template_scenario(*tmap[tid]), ())
            stmts = tokens_of_prog(prog)
            base = render(stmts)
            probe = set(i for i, s in enumerate(prog) if "probe" in s.tags)
            if sum(len(stmts[i]) for i in probe) > 10:
                continue
            for d1, p1, m1 in token_mutants(stmts, alphabet, only=probe):
                for d2, p2, m2 in token_mutants(m1, alphabet, only=probe):
                    run_one(res, render(m2), "f2008", True, "%s %s@%s+%s@%s" % (tid, d1, p1, d2, p2), base)
    res.counters["layer_%s_cases" % kind] += res.evals
    return res


def replay(case):
    if "history" in case:
        from fparser.two.parser import ParserFactory
        from mc.base import FortranStringReader, forget_parser

        forget_parser()
        p = ParserFactory().create(std=case["std"])
        o = None
        for text in case["history"]:
            try:
                tree = with_timeout(20.0, lambda: p(FortranStringReader(text, ignore_comments=case["ic"])))
                str(tree)
                o = Outcome(tree=tree)
            except BaseException as e:
                o = Outcome(exc=e)
        forget_parser()
        v = classify(o)
        return [{"sig": v[0] + "|history", "detail": v[1]}] if v else []
    if "bytes" in case:
        tmp = tempfile.mkdtemp(prefix="c06_")
        try:
            path = os.path.join(tmp, "u.f90")
            with open(path, "wb") as f:
                f.write(case["bytes"].encode("latin-1"))
            o = try_parse(None, case["std"], reader_factory=lambda: FortranFileReader(path))
        finally:
            shutil.rmtree(tmp, ignore_errors=True)
        v = classify(o)
        return [{"sig": v[0] + "|bytes", "detail": v[1]}] if v else []
    o = try_parse(case["text"], case["std"], ignore_comments=case["ic"])
    if o.ok:
        try:
            with_timeout(20.0, str, o.tree)
        except BaseException as e:
            o = Outcome(exc=e)
    v = classify(o)
    return [{"sig": v[0], "detail": v[1]}] if v else []
