"""C11 - comments are kept exactly once and in place, or ignored without
effect; directive processing only changes the node type of directive comments."""
import re
from mc import corpus, scenarios, explore
from mc import grammar as G
from mc.base import try_parse, canon, text_of, h64, walk, first_diff
from mc.runner import Result

ID = "C11"
RULE = (
    "for corpus programs and construct nests, E1 enumerates every comment placement with <= k "
    "deviations: at every statement gap {none | one comment | two comments | comment + blank line}, "
    "on every statement a trailing comment, inside the continuation of every continuable statement "
    "{comment line between the lines | trailing comment after '&'}, each with a text from a set "
    "containing quotes, '!', '&', ';' and directive-form texts; three configurations are parsed for "
    "each placement (comments kept, ignored, directives processed); same-text layer: one directive-form text "
    "both as a trailing comment (any statement) and on a line of its own (any gap) in one source - all pairs of "
    "positions - and in two successive parses of one process (both orders), each case in a forked child of a "
    "process that has parsed nothing. Non-trivial = >= 1 comment placed."
)
ASSUMPTIONS = ["order model: a comment inside the physical span of a statement is delivered after that statement, every other comment keeps its place", "free-form sources"]
FRESH_WORKER_PER_TASK = True  # the same-text layer needs processes that have parsed nothing
BOUNDS = {"quick": dict(corpus_k=1, nest_depth=1, nest_k=2, nest_texts=4), "thorough": dict(corpus_k=2, corpus_k2=["P5", "P6", "P8"], nest_depth=2, nest_k=2, nest_texts=8)}

TEXTS = ["! c", "!", "! it's \"q\"", "! a & b", "! x ! y ; z", "!$omp parallel", "!dir$ ivdep", "!$ x"]
_DIRECTIVE = re.compile(r"(\!\$[a-z]|c\$[a-z]|\*\$[a-z]|\!dir\$|cdir\$|\!gcc\$)", re.I)


def is_directive_form(text):
    return _DIRECTIVE.match(text) is not None


def place(prog, ch, ntexts):
    """returns (source, placed) where placed = list of (text, kind) in
    expected delivery order; kind in gap|inner|trailing"""
    from mc import corpus as C

    ds = C.depths(prog)
    stmts = [(s, d) for s, d in zip(prog, ds) if s.kind != "program_anon"]
    lines = []
    placed = []
    order = []  # interleaving model: ("s", statement index) | ("c", text)
    texts = TEXTS[:ntexts]

    def text():
        return texts[ch.choose(len(texts), "text")]

    i = 0
    while i < len(stmts):
        s, d = stmts[i]
        ind = " " * (1 + 2 * d)
        g = ch.choose(4, "gap")
        if g == 1:
            t = text()
            lines.append(ind + t)
            placed.append((t, "gap"))
            order.append(("c", t))
        elif g == 2:
            t1, t2 = text(), text()
            lines += [ind + t1, t2]
            placed += [(t1, "gap"), (t2, "gap")]
            order += [("c", t1), ("c", t2)]
        elif g == 3:
            t = text()
            lines += [ind + t, ""]
            placed.append((t, "gap"))
            order.append(("c", t))
        line = s.line()
        inner = []
        body = s.text
        k = body.find(" ")
        q = min([body.find(c) for c in "'\"" if c in body] or [len(body)])
        if 0 < k < q:
            c = ch.choose(3, "cont")
            if c:
                pre = (s.label + " " if s.label else "") + (s.name + ": " if s.name else "")
                if c == 1:
                    t = text()
                    lines += [ind + pre + body[:k] + " &", ind + "  " + t, ind + "    " + body[k + 1 :]]
                    inner.append((t, "inner"))
                else:
                    t = text()
                    lines += [ind + pre + body[:k] + " & " + t, ind + "    &" + body[k:]]
                    inner.append((t, "inner-trailing"))  # after code on its line: never a directive
                line = None
        # a character literal continued over two lines with a comment line
        # BETWEEN its halves (F2003 3.3.2.4 allows it; the text of the comment
        # may itself end in '&')
        mlit = re.search(r"(['\"])[^'\"&!]{3,}\1", body)
        if line is not None and mlit:
            lc = ch.choose(3, "litcont")
            if lc:
                t = text() + (" &" if lc == 2 else "")
                cut = mlit.start() + 2
                pre = (s.label + " " if s.label else "") + (s.name + ": " if s.name else "")
                lines += [ind + pre + body[:cut] + "&", ind + "  " + t, ind + "    &" + body[cut:]]
                inner.append((t, "inner"))
                line = None
        # ';' join with the next statement (comments of the physical line are
        # delivered after the LAST statement of the line)
        joined = False
        if i + 1 < len(stmts) and not stmts[i + 1][0].label and ch.flag("join"):
            nxt = stmts[i + 1][0]
            if line is not None:
                line = line + "; " + nxt.line()
            else:
                lines[-1] = lines[-1] + "; " + nxt.line()
            joined = True
        tr = ch.choose(1 + len(texts), "trail")
        if line is not None:
            lines.append(ind + line)
        if tr:
            t = texts[tr - 1]
            lines[-1] = lines[-1] + " " + t
            inner.append((t, "trailing-joined" if joined else "trailing"))
        placed += inner
        order.append(("s", i))
        if joined:
            order.append(("s", i + 1))
        order += [("c", t) for t, _ in inner]
        i += 2 if joined else 1
    g = ch.choose(3, "endgap")
    if g:
        t = text()
        lines.append(t)
        placed.append((t, "gap"))
        order.append(("c", t))
        if g == 2:
            lines.append("")
    return "\n".join(lines) + "\n", (placed, order)


def judge(src, placed, base_text, base_canon, std):
    """returns list of (kind, detail)"""
    from fparser.two.Fortran2003 import Comment, Directive

    order = None
    if isinstance(placed, tuple):
        placed, order = placed
    out = []
    # ignore mode
    o = try_parse(src, std, ignore_comments=True)
    if not o.ok:
        out.append(("ignore:rejected:" + o.klass(), (o.msg or "")[:200]))
    elif canon(o.tree) != base_canon:
        out.append(("ignore:tree-differs", "A = with comments ignored, B = comment-free source; " + first_diff(canon(o.tree), base_canon)))
    # keep mode
    k = try_parse(src, std, ignore_comments=False)
    if not k.ok:
        out.append(("keep:rejected:" + k.klass(), (k.msg or "")[:200]))
        return out
    got = [str(c) for c in walk(k.tree, Comment) if str(c).strip()]
    want = [t for t, _ in placed]
    if got != want:
        if sorted(got) != sorted(want):
            out.append(("keep:comment-set", "comments in tree %r, placed %r" % (got, want)))
        else:
            out.append(("keep:comment-order", "comments in tree order %r, model order %r" % (got, want)))
    text = text_of(k.tree)
    tl = [l.strip() for l in text.split("\n") if l.strip()]
    comment_lines = [l for l in tl if l.startswith("!")]
    if comment_lines != want and not any(x[0].startswith("keep:comment") for x in out):
        out.append(("keep:printed-comments", "comment lines printed %r, placed %r" % (comment_lines, want)))
    code_lines = [l for l in tl if not l.startswith("!")]
    base_lines = [l.strip() for l in base_text.split("\n") if l.strip()]
    if code_lines != base_lines:
        for i, (a, b) in enumerate(zip(code_lines, base_lines)):
            if a != b:
                out.append(("keep:code-differs", "code line %d printed %r, without comments %r" % (i + 1, a, b)))
                break
        else:
            out.append(("keep:code-differs", "%d code lines printed, %d without comments" % (len(code_lines), len(base_lines))))
    # comments in place: the interleaving of statement lines and comment lines
    # of the regenerated text equals the model's (a trailing comment directly
    # after its statement - after the last statement of a ';'-joined line)
    if order is not None and not out and len(base_lines) == sum(1 for k, _ in order if k == "s"):
        want_lines = [base_lines[v] if k == "s" else v.strip() for k, v in order]
        if tl != want_lines:
            for i, (a, b) in enumerate(zip(tl, want_lines)):
                if a != b:
                    out.append(("keep:comment-position", "line %d of the regenerated text is %r, model expects %r" % (i + 1, a, b)))
                    break
    # directive mode
    dmode = try_parse(src, std, ignore_comments=False, process_directives=True)
    if not dmode.ok:
        out.append(("directives:rejected:" + dmode.klass(), (dmode.msg or "")[:200]))
    else:
        kinds = {}
        for t, kind in placed:
            kinds.setdefault(t, set()).add(kind)
        nodes = [(type(n).__name__, str(n)) for n in walk(dmode.tree, (Comment, Directive)) if str(n).strip()]
        want_nodes = []
        for t, kind in placed:
            d = is_directive_form(t) and not kind.startswith("trailing") and kind != "inner-trailing"
            want_nodes.append(("Directive" if d else "Comment", t))
        # inline comments (after code on the same line, incl. after '&') are never directives
        if [n for n in nodes] != want_nodes:
            # tolerate only exact equality; report the first difference
            out.append(("directives:nodes", "directive-mode nodes %r\nmodel %r" % (nodes, want_nodes)))
        kc = re.sub(r"\bDirective\(", "Comment(", canon(dmode.tree))
        if kc != canon(k.tree):
            out.append(("directives:tree-differs", "A = directive mode with Directive->Comment, B = keep mode; " + first_diff(kc, canon(k.tree))))
    return out


def plan(tier, seed):
    b = BOUNDS[tier]
    tasks = []
    for pid in sorted(corpus.corpus()):
        k = b["corpus_k"]
        if k == 2 and pid not in b.get("corpus_k2", []):
            k = 1
        for sh in range(4):
            tasks.append(("E", tier, pid, k, sh, 4))
    names = [n for n, _ in G.EXEC_CONSTRUCTS]
    for d in range(1, b["nest_depth"] + 1):
        for first in names:
            tasks.append(("B", tier, first, d))
    for first in (("if", "do") if tier == "quick" else names):
        tasks.append(("DP", tier, first))
    return tasks


def progs_of(task):
    if task[0] == "E":
        yield "E/" + task[2], corpus.corpus()[task[2]], task[3], len(TEXTS), task[4], task[5]
    else:
        b = BOUNDS[task[1]]
        for seq in scenarios.kind_sequences(task[2], task[3]):
            ch, prog = explore.run(scenarios.nest_scenario(seq), ())
            # depth-2 nests (225 sequences): one placement at a time
            yield "B/" + "-".join(seq), prog, (b["nest_k"] if task[3] == 1 else 1), b["nest_texts"], 0, 1


def sig(kind, placed):
    kinds = sorted(set(k for _, k in placed))
    dirs = "dirform" if any(is_directive_form(t) for t, _ in placed) else "plain"
    return "C11|%s|%s|%s" % (kind, "+".join(kinds) or "none", dirs)


DP_TEXTS = ["!$omp barrier", "!dir$ ivdep", "!gcc$ unroll 2"]


def _dp_child(case):
    """runs in a forked child of a process that has parsed nothing"""
    for pre in case.get("pre", []):
        try_parse(pre, case["std"], ignore_comments=False, process_directives=True)
    o0 = try_parse(case["base"], case["std"])
    placed = [tuple(p) for p in case["placed"]]
    arg = (placed, [tuple(o) for o in case["order"]])
    return judge(case["src"], arg, text_of(o0.tree), canon(o0.tree), case["std"])


def run_dp(task):
    """the SAME directive-form text once as a trailing comment and once on a
    line of its own: in one source (every pair of positions) and in two
    successive parses of one process (both orders).  Every case runs in a
    forked child of a worker that has parsed nothing, so that its outcome is
    that of a fresh process."""
    from mc.forktree import run_isolated
    from mc import corpus as C

    res = Result()
    _, tier, first = task
    for seq in scenarios.kind_sequences(first, 1):
        ch, prog = explore.run(scenarios.nest_scenario(seq), ())
        std = G.prog_std(prog)
        base_src = corpus.render(prog)
        ds = C.depths(prog)
        stmts = [(s, d) for s, d in zip(prog, ds) if s.kind != "program_anon"]
        n = len(stmts)

        def build(trail_at, line_at, text):
            lines, placed, order = [], [], []
            for i, (s, d) in enumerate(stmts):
                ind = " " * (1 + 2 * d)
                if i == line_at:
                    lines.append(ind + text)
                    placed.append((text, "gap"))
                    order.append(("c", text))
                lines.append(ind + s.line() + (" " + text if i == trail_at else ""))
                order.append(("s", i))
                if i == trail_at:
                    placed.append((text, "trailing"))
                    order.append(("c", text))
            return "\n".join(lines) + "\n", placed, order

        for text in DP_TEXTS[: (2 if tier == "quick" else 3)]:
            cases = []
            for a in range(n):
                for bb in range(n):
                    src, placed, order = build(a, bb, text)
                    cases.append(("pair", {"src": src, "placed": [list(p) for p in placed], "order": [list(o) for o in order], "base": base_src, "std": std, "dp": True}))
            for a in range(0, n, 2):
                s_tr, p_tr, o_tr = build(a, None, text)
                s_ln, p_ln, o_ln = build(None, a, text)
                cases.append(("history", {"pre": [s_tr], "src": s_ln, "placed": [list(p) for p in p_ln], "order": [list(o) for o in o_ln], "base": base_src, "std": std, "dp": True}))
                cases.append(("history", {"pre": [s_ln], "src": s_tr, "placed": [list(p) for p in p_tr], "order": [list(o) for o in o_tr], "base": base_src, "std": std, "dp": True}))
            for what, case in cases:
                res.evals += 1
                res.transitions += 1 + len(case.get("pre", []))
                hk = h64(repr(case.get("pre")), case["src"], std)
                res.states.add(hk)
                res.nontrivial.add(hk)
                vs = run_isolated(_dp_child, case)
                if isinstance(vs, tuple) and vs and vs[0] == "HARNESS-ERROR":
                    res.violation("C11|harness|dp", vs[1], case)
                    continue
                res.outcomes["dp-%s:%s" % (what, "ok" if not vs else vs[0][0])] += 1
                res.results.add(h64(what, repr(vs[:1])))
                placed = [tuple(p) for p in case["placed"]]
                for kind, detail in vs:
                    res.violation(sig(kind, placed) + "|same-text-" + what, "%s std=%s%s\n%s\n--- source:\n%s" % ("-".join(seq), std, ("; parsed first (directive mode):\n" + case["pre"][0]) if case.get("pre") else "", detail, case["src"]), dict(case, what=what), cost=len(case["src"]) + 100000 * len(case.get("pre", [])))
        res.sample({"program": "-".join(seq), "source": build(1, 2, DP_TEXTS[0])[0]})
    return res


def run(task):
    res = Result()
    if task[0] == "DP":
        return run_dp(task)
    for pid, prog, k, ntexts, shard, nshards in progs_of(task):
        std = G.prog_std(prog)
        base_src = corpus.render(prog)
        o0 = try_parse(base_src, std)
        if not o0.ok:
            res.violation("C11|model:base-rejected|" + pid, str(o0.msg), {"src": base_src, "placed": [], "base": base_src, "std": std})
            continue
        base_text, base_canon = text_of(o0.tree), canon(o0.tree)
        stats = {}
        n = 0
        for vec, ch, (src, placed) in explore.explore(lambda ch: place(prog, ch, ntexts), k, stats):
            n += 1
            if n % nshards != shard:
                continue
            res.evals += 1
            hk = h64(src, std)
            res.states.add(hk)
            if placed[0]:
                res.nontrivial.add(hk)
            vs = judge(src, placed, base_text, base_canon, std)
            res.outcomes["ok" if not vs else vs[0][0]] += 1
            res.results.add(hk)
            for kind, detail in vs:
                res.violation(sig(kind, placed[0]), "%s vec=%s std=%s\n%s\n--- source:\n%s" % (pid, list(vec), std, detail, src), {"src": src, "placed": [list(p) for p in placed[0]], "order": [list(o) for o in placed[1]], "base": base_src, "std": std}, cost=len(vec) * 100000 + len(src))
            if res.evals % 500 == 1:
                res.sample({"program": pid, "placed": placed[0], "source": src})
        if shard == 0:
            res.transitions += stats.get("decisions", 0)
    return res


def replay(case):
    if case.get("dp"):
        from mc.forktree import run_isolated

        placed = [tuple(p) for p in case["placed"]]
        return [{"sig": sig(k, placed) + "|same-text-" + case["what"], "detail": d} for k, d in run_isolated(_dp_child, case)]
    o0 = try_parse(case["base"], case["std"])
    placed = [tuple(p) for p in case["placed"]]
    arg = (placed, [tuple(o) for o in case["order"]]) if case.get("order") else placed
    vs = judge(case["src"], arg, text_of(o0.tree), canon(o0.tree), case["std"])
    return [{"sig": sig(k, placed), "detail": d} for k, d in vs]
