"""C15 - OpenMP conditional-compilation lines: parsed when enabled, comments
otherwise."""
from mc import corpus, scenarios, explore
from mc import grammar as G
from mc.base import try_parse, canon, text_of, h64, walk, first_diff, FortranStringReader
from mc.runner import Result

ID = "C15"
RULE = (
    "for corpus programs and construct nests, E1 enumerates every set S (|S| <= k; all subsets for small "
    "programs) of eligible whole simple statements (model decides that P minus S stays valid) x sentinel "
    "spelling {free: '!$ ' at indent 0 / statement indent, statement continued with '!$ &', '!$&' or "
    "'!$  ' continuation lines; fixed: '!$', 'c$', 'C$', '*$' in columns 1-2, continuation mark in "
    "column 6} x genuine '!$omp' lines at gaps x {enabled, disabled} x ignore_comments. Oracles: "
    "enabled -> tree == tree(P) and '!$omp' lines stay comments; disabled+ignore -> tree == tree(P "
    "minus S); disabled+keep -> every sentinel line is a Comment with its text. Non-trivial = |S| >= 1."
)
ASSUMPTIONS = ["eligibility of a statement for removal is decided by the model", "corpus E + layer-B nests"]
BOUNDS = {"quick": dict(corpus_k=1, small=["P8"], small_k=2, nest_depth=1, nest_full_limit=120), "thorough": dict(corpus_k=1, small=["P5", "P6", "P8", "Q1", "R1", "A1"], small_k=2, nest_depth=2, nest_full_limit=400)}

FREE_VARIANTS = ["indent", "col1", "cont-amp", "cont-amp-tight", "cont-noamp", "cont-in-literal"]
FIXED_VARIANTS = ["!$", "c$", "C$", "*$", "!$cont", "c$cont", "!$cont-in-literal"]
OMP_LINES = ["!$omp parallel do", "!$OMP END PARALLEL DO"]


def eligible(prog):
    out = []
    stack = []
    for i, s in enumerate(prog):
        if s.role == "open":
            stack.append(s)
        elif s.role == "close":
            n = 1
            for t in s.tags:
                if t.startswith("shared"):
                    n = int(t[6:])
            for _ in range(n):
                if stack:
                    stack.pop()
        elif s.role == "simple" and stack and (not s.label or len(s.label) <= 3):
            top = stack[-1]
            fam = (top.text.lower().split() or ["program"])[0].rstrip(",")  # (the virtual opener of an anonymous main program has no text)
            if fam in ("type", "enum", "interface", "abstract", "select", "where", "forall"):
                continue
            if s.text.lower().startswith(("enumerator", "module procedure", "procedure", "generic", "final", "import", "implicit")):
                continue
            out.append(i)
    return out


def splittable(s):
    body = s.text
    k = body.find(" ")
    q = min([body.find(c) for c in "'\"" if c in body] or [len(body)])
    return k if 0 < k < q else -1


def literal_split(s):
    """position inside the first character literal of the statement (after
    its second character) or -1"""
    import re

    m = re.search(r"(['\"])[^'\"]{3,}\1", s.text)
    if not m:
        return -1
    p = m.start() + 3
    # not directly after a blank: in fixed form that blank would sit in column
    # 72, which is known finding F9 (see C05), not a matter of sentinels
    while p < m.end() - 1 and s.text[p - 1] == " ":
        p += 1
    return p if p < m.end() - 1 else -1


def render(prog, ch, form, nvariants):
    """returns dict(enabled_src, plain_src, minus_src, S, sentinel_lines, omp)"""
    ds = corpus.depths(prog)
    el = set(eligible(prog))
    lines, plain, minus = [], [], []
    sent_lines = []
    omp = []
    S = []
    variants = FREE_VARIANTS if form == "free" else FIXED_VARIANTS
    for i, (s, d) in enumerate(zip(prog, ds)):
        if s.kind == "program_anon":
            continue
        ind = " " * (1 + 2 * d) if form == "free" else ""
        g = ch.choose(1 + len(OMP_LINES), "omp")
        if g:
            t = OMP_LINES[g - 1]
            if form == "fixed":
                t = t  # '!$omp' in column 1 is a comment line in fixed form too
            lines.append(t if form == "fixed" else ind + t)
            omp.append(t)
        if form == "free":
            full = ind + s.line()
        else:
            full = (s.label or "").ljust(5) + " " + (s.name + ": " if s.name else "") + s.text
        plain.append(full)
        v = 0
        if i in el:
            v = ch.choose(1 + min(nvariants, len(variants)), "sentinel")
        if not v:
            lines.append(full)
            minus.append(full)
            continue
        S.append(i)
        var = variants[v - 1]
        k = splittable(s)
        if var.endswith("cont-in-literal"):
            ls = literal_split(s)
            pre = (s.name + ": " if s.name else "")
            fpre = (s.label + " " if s.label else "") + pre
            if ls < 0:
                var = "indent" if form == "free" else "!$"
            elif form == "free":
                # the statement is continued in the middle of a character literal
                new = [ind + "!$ " + fpre + s.text[:ls] + "&", ind + "!$ &" + s.text[ls:]]
                lines += new
                sent_lines += new
                continue
            else:
                head = "!$" + (s.label or "").ljust(3) + " " + pre + s.text[:ls]
                if len(head) <= 72:
                    new = [head + " " * (72 - len(head)) if False else head.ljust(72) if s.text[ls - 1] != " " and False else head, "!$   &" + s.text[ls:]]
                    # fixed form: a literal continued over lines is only defined
                    # when the cut is in column 72; pad in front of the statement
                    padn = 72 - len(head)
                    new = ["!$" + (s.label or "").ljust(3) + " " + " " * padn + pre + s.text[:ls], "!$   &" + s.text[ls:]]
                    lines += new
                    sent_lines += new
                    continue
                var = "!$"
        if form == "free":
            if var == "indent" or (var.startswith("cont") and k < 0):
                new = [ind + "!$ " + s.line()]
            elif var == "col1":
                new = ["!$ " + s.line()]
            else:
                a, b = s.text[:k], s.text[k + 1 :]
                pre = (s.label + " " if s.label else "") + (s.name + ": " if s.name else "")
                first = ind + "!$ " + pre + a + " &"
                if var == "cont-amp":
                    new = [first, ind + "!$ & " + b]
                elif var == "cont-amp-tight":
                    new = [first, "!$&" + " " + b]
                else:
                    new = [first, ind + "!$   " + b]
        else:
            body = (s.name + ": " if s.name else "") + s.text
            sen = var[:2]
            lab3 = (s.label or "").ljust(3)
            if var.endswith("cont") and k >= 0:
                a, b = s.text[:k], s.text[k + 1 :]
                new = [sen + lab3 + " " + (s.name + ": " if s.name else "") + a, sen + "   & " + b]
            else:
                new = [sen + lab3 + " " + body]
        lines += new
        sent_lines += new
    return {
        "enabled": "\n".join(lines) + "\n",
        "plain": "\n".join(plain) + "\n",
        "minus": "\n".join(minus) + "\n",
        "S": S,
        "sent": sent_lines,
        "omp": omp,
        "form": form,
    }


def judge(case, std):
    from fparser.two.Fortran2003 import Comment

    out = []
    src = case["enabled"]
    p0 = try_parse(case["plain"], std)
    if not p0.ok:
        return [("model:plain-rejected", (p0.msg or "")[:200])]
    want_mode = "fix" if case["form"] == "fixed" else "free"
    if FortranStringReader(case["plain"]).format.mode != want_mode:
        return []  # the plain rendering itself is not detected as intended (C05's business)
    ref = canon(p0.tree)
    # enabled, comments ignored
    e = try_parse(src, std, include_omp_conditional_lines=True, ignore_comments=True)
    if not e.ok:
        out.append(("enabled:rejected:" + e.klass(), (e.msg or "")[:200]))
    elif canon(e.tree) != ref:
        out.append(("enabled:tree-differs", "A = sentinel lines enabled, B = plain program; " + first_diff(canon(e.tree), ref)))
    # the same through a FILE reader (for <= 1 hidden statement): the option is
    # a constructor argument of both reader classes
    if len(case["S"]) <= 1:
        import os, tempfile
        from mc.base import FortranFileReader

        fd, path = tempfile.mkstemp(prefix="c15_", suffix=".f90" if case["form"] == "free" else ".f")
        try:
            with os.fdopen(fd, "w") as f:
                f.write(src)
            ef = try_parse(None, std, reader_factory=lambda: FortranFileReader(path, include_omp_conditional_lines=True, ignore_comments=True))
            df = try_parse(None, std, reader_factory=lambda: FortranFileReader(path, ignore_comments=True))
        finally:
            os.unlink(path)
        if ef.ok != e.ok or (ef.ok and e.ok and canon(ef.tree) != canon(e.tree)):
            out.append(("enabled-file-reader:differs-from-string-reader", "file reader: %s\nstring reader: %s" % (canon(ef.tree)[:300] if ef.ok else ef.klass(), canon(e.tree)[:300] if e.ok else e.klass())))
        m0f = try_parse(case["minus"], std)
        if m0f.ok and (not df.ok or canon(df.tree) != canon(m0f.tree)):
            out.append(("disabled-file-reader:differs", "file reader with the option off: %s" % (df.klass() if not df.ok else first_diff(canon(df.tree), canon(m0f.tree)))))
    # enabled, comments kept: '!$omp' lines are comments, code equal
    ek = try_parse(src, std, include_omp_conditional_lines=True, ignore_comments=False)
    if not ek.ok:
        out.append(("enabled-keep:rejected:" + ek.klass(), (ek.msg or "")[:200]))
    else:
        comments = [str(c).strip() for c in walk(ek.tree, Comment) if str(c).strip()]
        if comments != [c.strip() for c in case["omp"]]:
            out.append(("enabled-keep:comments", "comments %r, genuine directives placed %r" % (comments, case["omp"])))
        code = [l.strip() for l in text_of(ek.tree).split("\n") if l.strip() and not l.strip().startswith(("!", "C$", "c$", "*$"))]
        base = [l.strip() for l in text_of(p0.tree).split("\n") if l.strip()]
        if code != base:
            out.append(("enabled-keep:code-differs", "printed code differs from the plain program's"))
    # disabled, comments ignored == P minus S
    m0 = try_parse(case["minus"], std)
    if not m0.ok:
        out.append(("model:minus-rejected", (m0.msg or "")[:200] + "\n" + case["minus"]))
        return out
    dd = try_parse(src, std, ignore_comments=True)
    if not dd.ok:
        out.append(("disabled:rejected:" + dd.klass(), (dd.msg or "")[:200]))
    elif canon(dd.tree) != canon(m0.tree):
        out.append(("disabled:tree-differs", "A = sentinel lines as comments, B = program without them; " + first_diff(canon(dd.tree), canon(m0.tree))))
    # disabled, comments kept: sentinel lines are Comment nodes with their text
    dk = try_parse(src, std, ignore_comments=False)
    if not dk.ok:
        out.append(("disabled-keep:rejected:" + dk.klass(), (dk.msg or "")[:200]))
    else:
        comments = [str(c).strip() for c in walk(dk.tree, Comment) if str(c).strip()]
        want = sorted([l.strip() for l in case["sent"]] + [c.strip() for c in case["omp"]])
        if sorted(comments) != want:
            out.append(("disabled-keep:comments", "comment nodes %r\nexpected     %r" % (sorted(comments), want)))
    return out


def sig(kind, case, prog):
    feats = set()
    for l in case["sent"]:
        st = l.strip()
        feats.add(st[:2] + ("&" if "&" in st[:6] else ""))
    return "C15|%s|%s|%s" % (kind, case["form"], ",".join(sorted(feats)) + ("+omp" if case["omp"] else ""))


def plan(tier, seed):
    b = BOUNDS[tier]
    tasks = []
    for pid in sorted(corpus.corpus()):
        k = 3 if pid in b.get("k3", []) else (b["small_k"] if pid in b["small"] else b["corpus_k"])
        nsh = 3 if k == 1 else (8 if k == 2 else 32)
        for form in ("free", "fixed"):
            for sh in range(nsh):
                tasks.append(("E", tier, pid, form, k, sh, nsh))
    names = [n for n, _ in G.EXEC_CONSTRUCTS]
    for d in range(1, b["nest_depth"] + 1):
        for first in names:
            tasks.append(("B", tier, first, d))
    for form in ("free", "fixed"):
        tasks.append(("X", tier, form))
    return tasks


# statements whose character literals contain the sentinels themselves: only
# the sentinel at the start of the line may be touched
SENTINEL_LITS = """
subroutine sl(n)
character(len=20) :: s
s = 'flag !$ set'
s = 'c$ and C$ and *$'
print *, "x !$ y", '!$'
10 s = '!$omp !$ *$ c$'
end subroutine sl
"""


def run(task):
    res = Result()
    b = BOUNDS[task[1]]
    if task[0] == "X":
        items = [("X/sentinel-lits", corpus.from_text(SENTINEL_LITS), task[2], 2 if task[1] == "quick" else 3, 0, 1)]
    elif task[0] == "E":
        items = [("E/" + task[2], corpus.corpus()[task[2]], task[3], task[4], task[5], task[6])]
    else:
        items = []
        for seq in scenarios.kind_sequences(task[2], task[3]):
            ch, prog = explore.run(scenarios.nest_scenario(seq), ())
            for form in ("free", "fixed"):
                items.append(("B/" + "-".join(seq), prog, form, None, 0, 1))
    for pid, prog, form, k, shard, nshards in items:
        std = G.prog_std(prog)
        if form == "fixed" and any(len((s.label or "").ljust(5) + " " + s.line()) > 66 for s in prog):
            continue
        stats = {}
        n = 0
        nvar = 7 if (k is None or k <= 1 or task[1] != "quick") else 4  # quick: pairs of hidden statements over 4 variants
        if k is None:
            # small nests: all subsets if the product is small, else k = 2
            cnt = 0
            for _ in explore.explore(lambda ch: render(prog, ch, form, 2), None):
                cnt += 1
                if cnt > b["nest_full_limit"]:
                    break
            k, nvar = (None, 2) if cnt <= b["nest_full_limit"] else (2, 7)
        for vec, ch, case in explore.explore(lambda ch: render(prog, ch, form, nvar), k, stats):
            n += 1
            if n % nshards != shard:
                continue
            res.evals += 1
            hk = h64(case["enabled"], std)
            res.states.add(hk)
            if case["S"]:
                res.nontrivial.add(hk)
            vs = judge(case, std)
            res.outcomes["ok" if not vs else vs[0][0]] += 1
            res.results.add(hk)
            for kind, detail in vs:
                res.violation(sig(kind, case, prog), "%s form=%s S=%s std=%s\n%s\n--- source:\n%s" % (pid, form, case["S"], std, detail, case["enabled"]), {"case": case, "std": std}, cost=len(case["S"]) * 100000 + len(case["enabled"]))
            if res.evals % 400 == 1:
                res.sample({"program": pid, "form": form, "S": case["S"], "source": case["enabled"]})
        if shard == 0:
            res.transitions += stats.get("decisions", 0)
    return res


def replay(case):
    c = case["case"]
    return [{"sig": sig(k, c, None), "detail": d} for k, d in judge(c, case["std"])]
