"""C02 - regenerated source preserves the program's content token for token."""
from mc import scenarios, lexer, grammar_stmts, explore
from mc import grammar as G
from mc.normalise import normalise, stmt_tokens
from mc.base import try_parse, canon, text_of, h64, node_classes

ID = "C02"
RULE = (
    "E1 enumeration of model G layers A-D x std; the token sequence of every statement is known from "
    "the model (independent lexer L over the generated statement text, label and construct name kept "
    "apart); str(parse(P)) is lexed by L line by line; both sides go through the named canonicalisation "
    "rules of mc/normalise.py and are compared statement by statement, token by token. Non-trivial = "
    ">= 3 statements compared."
)
ASSUMPTIONS = ["valid class = model G", "canonicalisations are exactly the rules in mc/normalise.py", "lexer L (mc/lexer.py) is independent of fparser"]
BOUNDS = scenarios.BOUNDS


def plan(tier, seed):
    return scenarios.tasks(tier) + [("ADV", i) for i in range(len(grammar_stmts.ADVERSARIAL))]


def source_statements(prog):
    out = []
    for s in prog:
        if s.kind == "program_anon":
            continue
        out.append(normalise(stmt_tokens(s.label, s.name, lexer.lex(s.text))))
    return out


def output_statements(text):
    out = []
    for line in text.split("\n"):
        st = line.strip()
        if not st or st.startswith("!"):
            continue
        out.append(normalise(lexer.lex(st)))
    return out


def judge(prog_stmts, src, std):
    o = try_parse(src, std)
    if not o.ok:
        return "rejected:" + o.klass(), (o.msg or "")[:200], o
    text = text_of(o.tree)
    try:
        outs = output_statements(text)
    except lexer.LexError as e:
        return "output-not-lexable", "%s\n%s" % (e, text), o
    if len(outs) != len(prog_stmts):
        return "statement-count", "source has %d statements, regenerated text %d\n%s" % (len(prog_stmts), len(outs), text), o
    for i, (a, b) in enumerate(zip(prog_stmts, outs)):
        if a != b:
            ta = " ".join(t for _, t in a)
            tb = " ".join(t for _, t in b)
            return "tokens-differ", "statement %d:\n  source : %s\n  printed: %s" % (i + 1, ta, tb), o
    return None, None, o


def stmt_class(detail):
    return ""


def check_case(res, cid, prog, tag):
    src = G.render(prog)
    stmts = source_statements(prog)
    for std in G.stds_for(prog):
        res.evals += 1
        hk = h64(src, std)
        res.states.add(hk)
        kind, detail, o = judge(stmts, src, std)
        res.outcomes[kind or "ok"] += 1
        if o.ok:
            res.classes |= node_classes(o.tree)
            res.results.add(h64(text_of(o.tree)))
            if len(stmts) >= 3:
                res.nontrivial.add(hk)
        res.counters["tokens_compared"] += sum(len(s) for s in stmts)
        if kind:
            res.violation("C02|%s|%s" % (kind, tag), "%s std=%s\n%s\n--- source:\n%s" % (cid, std, detail, src), {"src": src, "std": std, "cid": cid, "stmts": [[list(t) for t in s] for s in stmts]}, cost=len(src))


def run(task):
    if task[0] == "ADV":
        from mc.runner import Result

        res = Result()
        text, ctx, std = grammar_stmts.ADVERSARIAL[task[1]]
        ch, prog = explore.run(G.template_scenario("ADV%d" % task[1], text, ctx, std), ())
        check_case(res, "ADV/%d/" % task[1], prog, "ADV/%d" % task[1])
        return res
    return scenarios.run_task(task, check_case)


def replay(case):
    stmts = [[tuple(t) for t in s] for s in case["stmts"]]
    kind, detail, o = judge(stmts, case["src"], case["std"])
    if kind:
        return [{"sig": "C02|%s|%s" % (kind, scenarios.feature_tag(case["cid"])), "detail": detail}]
    return []
