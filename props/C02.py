"""C02 - regenerated source preserves the program's content token for token."""
from mc import scenarios, lexer, grammar_stmts, explore
from mc import grammar as G
from mc.normalise import normalise, stmt_tokens
from mc.base import try_parse, canon, text_of, h64, node_classes

ID = "C02"
RULE = (
    "E1 enumeration of model G layers A-D x std; the token sequence of every statement is known from "
    "the model (independent lexer L over the generated statement text, label and construct name kept "
    "apart); str(parse(P)) is lexed by L line by line; both sides go through the named canonicalisation "
    "rules of mc/normalise.py and are compared statement by statement, token by token. Non-trivial = "
    ">= 3 statements compared."
)
ASSUMPTIONS = ["valid class = model G", "canonicalisations are exactly the rules in mc/normalise.py", "lexer L (mc/lexer.py) is independent of fparser"]
BOUNDS = scenarios.BOUNDS


def plan(tier, seed):
    from mc import corpus, layout

    lay = []
    for pid in sorted(corpus.corpus()):
        for sh in range(4):
            lay.append(("LAY", "E/" + pid, sh, 4, tier))
    for name, prog, only in layout.focus_programs():
        if name.startswith("format"):
            continue  # comma-less scale factors: lexer L is not a FORMAT lexer ('1pe12.4' is printed '1P, E12.4')
        lay.append(("LAY", "F/" + name, 0, 1, tier))
    return scenarios.tasks(tier) + [("ADV", i) for i in range(len(grammar_stmts.ADVERSARIAL))] + lay


def run_layouts(task):
    """'... and every layout of P': the token comparison on laid-out sources
    (layout model R; corpus with <= 1 deviation, focus programs with <= 2)"""
    from mc import corpus, layout
    from mc.runner import Result

    _, pid, shard, nshards, tier = task
    res = Result()
    if pid.startswith("F/"):
        name, prog, only = [f for f in layout.focus_programs() if "F/" + f[0] == pid][0]
        opts, k = {"only": only, "styles": layout.STYLES_FOCUS, "case": False, "indents": False}, (2 if tier == "quick" else 3)
    else:
        prog = corpus.corpus()[pid[2:]]
        opts, k = {"styles": layout.STYLES_QUICK, "case": False}, 1
    std = G.prog_std(prog)
    n = 0
    stats = {}
    for vec, ch, lay in explore.explore(lambda ch: layout.render_free(prog, ch, opts), k, stats):
        n += 1
        if n % nshards != shard:
            continue
        stmts = [normalise(stmt_tokens(str(ex.label) if ex.label is not None else None, ex.name, ex.tokens)) for ex in lay.expect]
        res.evals += 1
        hk = h64(lay.text, std)
        res.states.add(hk)
        if vec:
            res.nontrivial.add(hk)
        kind, detail, o = judge(stmts, lay.text, std)
        res.outcomes[kind or "ok"] += 1
        if o.ok:
            res.results.add(h64(text_of(o.tree)))
        if kind:
            feats = ",".join(sorted(f for f in lay.features if not f.startswith("case"))) or "canonical"
            res.violation("C02|%s|layout:%s" % (kind, feats), "%s vec=%s std=%s\n%s\n--- source:\n%s" % (pid, list(vec), std, detail, lay.text), {"src": lay.text, "std": std, "cid": "layout:%s/" % feats, "stmts": [[list(t) for t in s] for s in stmts]}, cost=len(vec) * 100000 + len(lay.text))
        if res.evals % 500 == 1:
            res.sample({"program": pid, "layout": lay.text})
    if shard == 0:
        res.transitions += stats.get("decisions", 0)
    return res


def source_statements(prog):
    out = []
    for s in prog:
        if s.kind == "program_anon":
            continue
        out.append(normalise(stmt_tokens(s.label, s.name, lexer.lex(s.text))))
    return out


def output_statements(text):
    out = []
    for line in text.split("\n"):
        st = line.strip()
        if not st or st.startswith("!"):
            continue
        out.append(normalise(lexer.lex(st)))
    return out


def judge(prog_stmts, src, std):
    o = try_parse(src, std)
    if not o.ok:
        return "rejected:" + o.klass(), (o.msg or "")[:200], o
    text = text_of(o.tree)
    try:
        outs = output_statements(text)
    except lexer.LexError as e:
        return "output-not-lexable", "%s\n%s" % (e, text), o
    if len(outs) != len(prog_stmts):
        return "statement-count", "source has %d statements, regenerated text %d\n%s" % (len(prog_stmts), len(outs), text), o
    for i, (a, b) in enumerate(zip(prog_stmts, outs)):
        if a != b:
            ta = " ".join(t for _, t in a)
            tb = " ".join(t for _, t in b)
            return "tokens-differ", "statement %d:\n  source : %s\n  printed: %s" % (i + 1, ta, tb), o
    return None, None, o


def stmt_class(detail):
    return ""


def check_case(res, cid, prog, tag):
    src = G.render(prog)
    stmts = source_statements(prog)
    for std in G.stds_for(prog):
        res.evals += 1
        hk = h64(src, std)
        res.states.add(hk)
        kind, detail, o = judge(stmts, src, std)
        res.outcomes[kind or "ok"] += 1
        if o.ok:
            res.classes |= node_classes(o.tree)
            res.results.add(h64(text_of(o.tree)))
            if len(stmts) >= 3:
                res.nontrivial.add(hk)
        res.counters["tokens_compared"] += sum(len(s) for s in stmts)
        if kind:
            res.violation("C02|%s|%s" % (kind, tag), "%s std=%s\n%s\n--- source:\n%s" % (cid, std, detail, src), {"src": src, "std": std, "cid": cid, "stmts": [[list(t) for t in s] for s in stmts]}, cost=len(src))


def run(task):
    if task[0] == "LAY":
        return run_layouts(task)
    if task[0] == "ADV":
        from mc.runner import Result

        res = Result()
        text, ctx, std = grammar_stmts.ADVERSARIAL[task[1]]
        ch, prog = explore.run(G.template_scenario("ADV%d" % task[1], text, ctx, std), ())
        check_case(res, "ADV/%d/" % task[1], prog, "ADV/%d" % task[1])
        return res
    return scenarios.run_task(task, check_case)


def replay(case):
    stmts = [[tuple(t) for t in s] for s in case["stmts"]]
    kind, detail, o = judge(stmts, case["src"], case["std"])
    if kind:
        tag = case["cid"][:-1] if case["cid"].startswith("layout:") else scenarios.feature_tag(case["cid"])
        return [{"sig": "C02|%s|%s" % (kind, tag), "detail": detail}]
    return []
