"""C04 - free-form layout does not change the parse."""
from mc import scenarios, corpus, layout, explore, stream
from mc import grammar as G
from mc.base import try_parse, canon, h64, node_classes, first_diff, canon_fold_names
from mc.runner import Result

ID = "C04"
RULE = (
    "for every program of corpus E and every layer-A template program, E1 enumerates every layout "
    "with <= k deviations from the canonical layout (break at every token boundary x break style, "
    "break at every position inside every character literal, gap blank/comment lines, trailing "
    "comments, ';' joins, indentation, keyword case); (a) reader level: delivered items == model S "
    "(tokens, label, name, span; comments kept and ignored); (b) parser level: tree == tree of the "
    "canonical layout. Non-trivial = layout with >= 1 deviation."
)
ASSUMPTIONS = ["valid class = model G corpus + templates", "layout space = mc/layout.py (no mid-token splits, no line-initial ';')"]
BOUNDS = {
    "quick": dict(layout_k=1, template_k=0, styles="quick(10)", shards=8, focus_k=2),
    "thorough": dict(layout_k=1, template_k=1, styles="full(192)", shards=16, focus_k=3),
}


def programs(tier):
    """(pid, prog) list: corpus + template programs"""
    out = [("E/" + k, p) for k, p in sorted(corpus.corpus().items())]
    tk = BOUNDS[tier]["template_k"]
    for t in G.templates():
        sc = G.template_scenario(*t)
        for vec, ch, prog in explore.explore(sc, tk):
            out.append(("A/%s/%s" % (t[0], ".".join(map(str, vec))), prog))
    return out


def plan(tier, seed):
    tasks = []
    progs = programs(tier)
    shards = BOUNDS[tier]["shards"]
    for i, (pid, prog) in enumerate(progs):
        if pid.startswith("E/"):
            for sh in range(shards):
                tasks.append((tier, i, sh, shards))
    # template programs are small: group 8 per task
    small = [i for i, (pid, _) in enumerate(progs) if not pid.startswith("E/")]
    for j in range(0, len(small), 8):
        tasks.append((tier, tuple(small[j : j + 8]), 0, 1))
    # focus layer: feature-rich single statements with more simultaneous deviations
    nf = len(layout.focus_programs())
    fsh = 6 if tier == "quick" else 16
    for i in range(nf):
        for sh in range(fsh):
            tasks.append((tier, "focus", i, sh, fsh))
    return tasks


_progs = {}


def _get_progs(tier):
    if tier not in _progs:
        _progs[tier] = programs(tier)
    return _progs[tier]


def sig_for(level, kind, feats):
    f = sorted(x for x in feats if not x.startswith("case"))
    return "C04|%s:%s|%s" % (level, kind, ",".join(f) or "canonical")


def judge(lay, prog, std, ref_canon=None):
    """all oracle levels for one layout; returns list of (level, kind, detail)"""
    out = []
    text = lay.text
    fold = any(f.startswith("case") for f in lay.features)
    if "case3" in lay.features:
        fold = "all"
    for ic in (True, False):
        try:
            r, items = stream.read_all(text, ignore_comments=ic)
        except BaseException as e:
            out.append(("reader", "raises:" + type(e).__name__, repr(e)[:200]))
            continue
        if r.format.mode != "free":
            out.append(("reader", "form-detected-" + r.format.mode, "source form guessed as %s" % r.format.mode))
            continue
        k, d = stream.check_items(lay, items, ic, fold=fold)
        if k:
            out.append(("reader-ic%d" % ic, k, d))
            break
    if ref_canon is None:
        o0 = try_parse(layout.canonical_text(prog), std)
        if not o0.ok:
            out.append(("model", "canonical-rejected:" + o0.klass(), (o0.msg or "")[:200]))
            return out
        ref_canon = canon(o0.tree)
    o = try_parse(text, std)
    if not o.ok:
        out.append(("parser", "rejected:" + o.klass(), (o.msg or "")[:300]))
    elif canon(o.tree) != ref_canon and not (fold and canon_fold_names(canon(o.tree)) == canon_fold_names(ref_canon)):
        out.append(("parser", "tree-differs", "A = layout tree, B = canonical tree; " + first_diff(canon(o.tree), ref_canon)))
    return out


def run(task):
    res = Result()
    b = BOUNDS[task[0]]
    if task[1] == "focus":
        tier, _, fi, shard, nshards = task
        name, prog, only = layout.focus_programs()[fi]
        items = [("F/" + name, prog, {"only": only, "styles": layout.STYLES_FOCUS, "case": name.startswith("format"), "indents": False}, b["focus_k"])]
    else:
        tier, idx, shard, nshards = task
        progs = _get_progs(tier)
        opts0 = {"styles": layout.STYLES_QUICK if tier == "quick" else layout.STYLES_FULL}
        items = [(progs[i][0], progs[i][1], opts0, b["layout_k"]) for i in (idx if isinstance(idx, tuple) else (idx,))]
    for pid, prog, opts, kk in items:
        std = G.prog_std(prog)
        o0 = try_parse(layout.canonical_text(prog), std)
        if not o0.ok:
            res.violation(sig_for("model", "canonical-rejected:" + o0.klass(), ()), "%s: the canonical one-statement-per-line text is rejected\n%s" % (pid, o0.msg), {"pid": pid, "tier": tier, "vec": []})
            continue
        ref = canon(o0.tree)
        res.classes |= node_classes(o0.tree)
        stats = {}
        n = 0
        for vec, ch, lay in explore.explore(lambda ch: layout.render_free(prog, ch, opts), kk, stats):
            n += 1
            if n % nshards != shard:
                continue
            res.evals += 1
            hk = h64(lay.text, std)
            res.states.add(hk)
            if vec:
                res.nontrivial.add(hk)
            vs = judge(lay, prog, std, ref)
            res.outcomes["ok" if not vs else vs[0][0] + ":" + vs[0][1]] += 1
            res.results.add(h64(lay.text))
            for f in lay.features:
                res.counters["feat:" + f.split(":")[0]] += 1
            for level, kind, detail in vs:
                res.violation(sig_for(level, kind, lay.features), "%s vec=%s std=%s\n%s\n--- layout:\n%s" % (pid, list(vec), std, detail, lay.text), {"pid": pid, "tier": tier, "vec": list(vec), "text": lay.text}, cost=len(vec) * 100000 + len(lay.text))
            if res.evals % 400 == 1:
                res.sample({"program": pid, "vector": list(vec), "layout": lay.text})
        if shard == 0:
            res.transitions += stats.get("decisions", 0)
    return res


def replay(case):
    tier = case["tier"]
    if case["pid"].startswith("F/"):
        name, prog, only = [f for f in layout.focus_programs() if "F/" + f[0] == case["pid"]][0]
        opts = {"only": only, "styles": layout.STYLES_FOCUS, "case": name.startswith("format"), "indents": False}
    else:
        progs = dict(_get_progs(tier))
        prog = progs[case["pid"]]
        opts = {"styles": layout.STYLES_QUICK if tier == "quick" else layout.STYLES_FULL}
    ch, lay = explore.run(lambda ch: layout.render_free(prog, ch, opts), case["vec"])
    if "text" in case and lay.text != case["text"]:
        raise explore.Divergence("layout replay produced different text")
    std = G.prog_std(prog)
    return [{"sig": sig_for(l, k, lay.features), "detail": d} for l, k, d in judge(lay, prog, std)]
