"""C10 - the parse tree is a well-formed tree with consistent navigation:
checked on every tree of the C01 exploration (first parse AND re-parse of the
regenerated text), both standards, comments kept or dropped."""
from mc import scenarios, oracles
from mc import grammar as G
from mc.base import try_parse, canon, text_of, h64, node_classes

ID = "C10"
RULE = (
    "E1 enumeration of model G layers A-D (same scenarios as C01) x std x ignore_comments; "
    "on every tree (first parse and re-parse of str(T)) every node is visited and the "
    "structural invariants (single occurrence, parent links, get_root, walk order, walk "
    "statements == lines of str(root)) are evaluated. Distinct = rendered source+config; "
    "non-trivial = tree with >= 10 nodes."
)
ASSUMPTIONS = ["valid class = model G", "children are what Base.children returns, recursing through tuples/lists"]
BOUNDS = scenarios.BOUNDS
# extra backtracking-heavy inputs (labelled DO variants, hooks, ';' joins)
EXTRA = [
    "subroutine s\n do 10 i = 1, 3\n do 10 j = 1, 3\n a = 1\n10 continue\nend\n",
    "subroutine s\n do 10 i = 1, 3\n do 20 j = 1, 3\n a = 1\n20 b = 2\n10 c = 3\nend\n",
    "subroutine s\n a = 1; b = 2; if (a) c = 3\n do i = 1, 2; a = i; end do\nend\n",
    "subroutine s\n if (a) then; b = 1; else if (c) then; b = 2; else; b = 3; end if\nend\n",
    "program p\n integer :: sin\n block\n real :: x\n x = sin(1.0)\n end block\ncontains\n subroutine q\n x = sin(2.0)\n end subroutine q\nend program p\n",
    "subroutine s\n a = 1; b = 2;\n c = 3;; d = 4\n e = 5;  ! note\n f = 6 ; ; g = 7 ;\nend\n",
    "module m\n interface g\n module procedure a, b\n end interface g\ncontains\n subroutine a\n end subroutine a\n subroutine b\n end subroutine b\nend module m\n",
]


def plan(tier, seed):
    from mc import layout

    lay = [("LAY", i, sh, 4, tier) for i in range(len(layout.focus_programs())) for sh in range(4)]
    return scenarios.tasks(tier) + [("X", i) for i in range(len(EXTRA))] + lay


def run_layouts(task):
    """trees of laid-out sources (continuations, ';' joins incl. chains and
    empty parts, comments): the reader may deliver items in unusual ways"""
    from mc import layout, explore
    from mc.runner import Result

    _, fi, shard, nshards, tier = task
    name, prog, only = layout.focus_programs()[fi]
    opts = {"only": only, "styles": layout.STYLES_FOCUS, "case": False, "indents": False}
    res = Result()
    n = 0
    for vec, ch, lay in explore.explore(lambda ch: layout.render_free(prog, ch, opts), 2 if tier == "quick" else 3):
        n += 1
        if n % nshards != shard:
            continue
        for ic in ((True, False) if len([v for v in vec if v]) <= 1 else (False,)):
            check_src(res, "LAY/%s/" % name, lay.text, "f2003", ic, "LAY/" + ",".join(sorted(f.split(":")[0] for f in lay.features)))
    return res


def judge(src, std, ic):
    """list of (kind, detail)"""
    out = []
    o = try_parse(src, std, ignore_comments=ic)
    if not o.ok:
        return None, o
    probs = oracles.wellformed(o.tree)
    if probs:
        out.append(("first-parse", probs))
    o2 = try_parse(text_of(o.tree) + "\n", std, ignore_comments=ic)
    if o2.ok:
        probs = oracles.wellformed(o2.tree)
        if probs:
            out.append(("re-parse", probs))
    return out, o


def sig_of(kind, probs, tag):
    import re

    first = re.sub(r"%r|'[^']*'|\"[^\"]*\"|\d+", "_", probs[0])[:70]
    return "C10|%s|%s|%s" % (kind, first, tag)


def check_case(res, cid, prog, tag):
    srcs = [(True, G.render(prog)), (False, scenarios.with_comments(prog)), (False, scenarios.with_comments(prog, 1))]
    for std in G.stds_for(prog):
        for ic, src in srcs:
            check_src(res, cid, src, std, ic, tag)


def check_src(res, cid, src, std, ic, tag):
    res.evals += 1
    hk = h64(src, std, str(ic))
    res.states.add(hk)
    vs, o = judge(src, std, ic)
    if vs is None:
        res.outcomes["not-parsed:" + o.klass()] += 1
        return
    res.classes |= node_classes(o.tree)
    n_nodes = sum(1 for _ in _nodes(o.tree))
    res.results.add(h64(canon(o.tree)))
    res.counters["nodes_checked"] += n_nodes
    if n_nodes >= 10:
        res.nontrivial.add(hk)
    res.outcomes["wellformed" if not vs else "malformed"] += 1
    for kind, probs in vs:
        res.violation(sig_of(kind, probs, tag), "%s std=%s ic=%s %s:\n  %s\n--- source:\n%s" % (cid, std, ic, kind, "\n  ".join(probs), src), {"src": src, "std": std, "ic": ic, "cid": cid, "tag": tag}, cost=len(src))


def _nodes(tree):
    from mc.base import Base

    stack = [tree]
    while stack:
        n = stack.pop()
        if isinstance(n, Base):
            yield n
            stack.extend(oracles.iter_children(n))


def run(task):
    if task[0] == "LAY":
        return run_layouts(task)
    if task[0] == "X":
        from mc.runner import Result

        res = Result()
        for std in ("f2003", "f2008"):
            for ic in (True, False):
                check_src(res, "X/%d/" % task[1], EXTRA[task[1]], std, ic, "X/%d" % task[1])
        return res
    return scenarios.run_task(task, check_case)


def replay(case):
    vs, o = judge(case["src"], case["std"], case["ic"])
    tag = case.get("tag") or scenarios.feature_tag(case["cid"])
    return [{"sig": sig_of(k, p, tag), "detail": "\n".join(p)} for k, p in (vs or [])]
