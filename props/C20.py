"""C20 - parsing effort stays polynomial in nesting depth and program length.

E3: a fixed catalogue of size-indexed input families; for every size up to the
bound the number of rule-constructor calls (Base.__new__) of one parse is
counted deterministically in a freshly forked child with identical warm-up.
"""
from mc import forktree
from mc.base import h64
from mc.runner import Result

ID = "C20"
RULE = (
    "E3: for each family f of the catalogue (nested parentheses, IF, block DO, labelled DO ended by END "
    "DO / CONTINUE, shared-label DO with CONTINUE / action terminator, SELECT CASE, WHERE, ASSOCIATE, "
    "BLOCK, nested distinct-label non-block DO, nested references, nested array constructors; n repeated "
    "assignments / loops / labelled loops / IF constructs / units / declarations; flat a1+...+an, "
    "a1**...**an, a1//...//an, n-argument call, n-way ELSE IF, n CASEs) and EVERY n = 1..N the count of "
    "Base.__new__ calls of one parse is measured (no clocks). Oracle per family with declared degree k: "
    "count(2n)/count(n) <= 2^k * 1.15 for all n >= 4 with 2n <= N, and count(n) <= 1.5 * c * n^k with c "
    "fitted on n <= 4. states = (family, n) points. Non-trivial = every point."
)
# Declared degree: every family is declared quadratic (k = 2).  On the unchanged
# tree all terminating families are in fact linear (see evidence 'counts'); the
# property only demands a fixed low-degree polynomial, so a linear -> quadratic
# change is not an alarm, an exponential one is.
ASSUMPTIONS = ["effort = number of Base.__new__ invocations (every rule-matching attempt constructs through it)", "each measurement runs in a forked child after the same warm-up, so memo state is identical for every n", "the child raises Python's recursion limit to 20000 (nesting depth 30 needs > 1000 Python frames); a RecursionError beyond n = 16 (the interpreter's C-level limit) ends that family's measurements and is reported as a cap"]
BOUNDS = {"quick": dict(N=16, cap=400000), "thorough": dict(N=32, cap=5000000)}


def wrap(lines):
    return "subroutine s\n" + "\n".join(lines) + "\nend subroutine s\n"


def nest(open_fn, close_fn, n, body="a = 1"):
    lines = [open_fn(i) for i in range(1, n + 1)] + [body] + [close_fn(i) for i in range(n, 0, -1)]
    return wrap(lines)


FAMILIES = {
    "nested-parentheses": (2, lambda n: wrap(["x = " + "(" * n + "a" + ")" * n])),
    "nested-if": (2, lambda n: nest(lambda i: "if (a > %d) then" % i, lambda i: "end if", n)),
    "nested-block-do": (2, lambda n: nest(lambda i: "do i%d = 1, 2" % i, lambda i: "end do", n)),
    "nested-named-do": (2, lambda n: nest(lambda i: "n%d: do i%d = 1, 2" % (i, i), lambda i: "end do n%d" % i, n)),
    "nested-labelled-do-enddo": (2, lambda n: nest(lambda i: "do %d i%d = 1, 2" % (100 + i, i), lambda i: "%d end do" % (100 + i), n)),
    "nested-labelled-do-continue": (2, lambda n: nest(lambda i: "do %d i%d = 1, 2" % (100 + i, i), lambda i: "%d continue" % (100 + i), n)),
    "shared-label-do-continue": (2, lambda n: wrap(["do 10 i%d = 1, 2" % i for i in range(1, n + 1)] + ["a = 1", "10 continue"])),
    "shared-label-do-action": (2, lambda n: wrap(["do 10 i%d = 1, 2" % i for i in range(1, n + 1)] + ["a = 1", "10 b = 2"])),
    "nested-select-case": (2, lambda n: nest(lambda i: "select case (k%d)\ncase (%d)" % (i, i), lambda i: "end select", n)),
    "nested-where": (2, lambda n: nest(lambda i: "where (w > %d)" % i, lambda i: "end where", n, body="w = 1")),
    "nested-associate": (2, lambda n: nest(lambda i: "associate (z%d => a)" % i, lambda i: "end associate", n)),
    "nested-block": (2, lambda n: nest(lambda i: "block", lambda i: "end block", n)),
    "nested-forall": (2, lambda n: nest(lambda i: "forall (i%d = 1:2)" % i, lambda i: "end forall", n, body="a(i1) = 1")),
    "nested-mixed": (2, lambda n: nest(lambda i: ["if (a > 0) then", "do i%d = 1, 2" % i, "select case (k)\ncase (1)", "block"][i % 4], lambda i: ["end if", "end do", "end select", "end block"][i % 4], n)),
    "repeated-assignments": (2, lambda n: wrap(["a%d = b%d + %d" % (i, i, i) for i in range(n)])),
    "repeated-loops": (2, lambda n: wrap(sum([["do i = 1, %d" % (i + 1), "a = i", "end do"] for i in range(n)], []))),
    "repeated-labelled-loops": (2, lambda n: wrap(sum([["do %d i = 1, 2" % (100 + i), "a = i", "%d continue" % (100 + i)] for i in range(n)], []))),
    "repeated-nonblock-loops": (2, lambda n: wrap(sum([["do %d i = 1, 2" % (100 + i), "%d a = i" % (100 + i)] for i in range(n)], []))),
    "repeated-if-constructs": (2, lambda n: wrap(sum([["if (a > %d) then" % i, "a = %d" % i, "else", "a = 0", "end if"] for i in range(n)], []))),
    "repeated-declarations": (2, lambda n: wrap(["integer :: v%d(%d)" % (i, i + 1) for i in range(n)])),
    "repeated-units": (2, lambda n: "".join("subroutine s%d\n a = %d\nend subroutine s%d\n" % (i, i, i) for i in range(n))),
    "repeated-module-procedures": (2, lambda n: "module m\ncontains\n" + "".join("subroutine s%d\n a = %d\nend subroutine s%d\n" % (i, i, i) for i in range(n)) + "end module m\n"),
    "flat-sum": (2, lambda n: wrap(["x = " + " + ".join("a%d" % i for i in range(n + 1))])),
    "flat-power": (2, lambda n: wrap(["x = " + " ** ".join("a%d" % i for i in range(n + 1))])),
    "flat-concat": (2, lambda n: wrap(["x = " + " // ".join("a%d" % i for i in range(n + 1))])),
    "flat-and": (2, lambda n: wrap(["x = " + " .and. ".join("a%d" % i for i in range(n + 1))])),
    "call-args": (2, lambda n: wrap(["call f(" + ", ".join("a%d" % i for i in range(n + 1)) + ")"])),
    "array-constructor-items": (2, lambda n: wrap(["x = [" + ", ".join("%d" % i for i in range(n + 1)) + "]"])),
    "else-if-chain": (2, lambda n: wrap(["if (a > 0) then", "a = 0"] + sum([["else if (a > %d) then" % i, "a = %d" % i] for i in range(1, n + 1)], []) + ["end if"])),
    "case-chain": (2, lambda n: wrap(["select case (k)"] + sum([["case (%d)" % i, "a = %d" % i] for i in range(1, n + 1)], []) + ["end select"])),
    "continuation-lines": (2, lambda n: wrap(["x = a0 &"] + ["  + a%d &" % i for i in range(1, n)] + ["  + b"])),
    "nested-nonblock-do": (2, lambda n: wrap(["do %d i%d = 1, 2" % (100 + i, i) for i in range(1, n + 1)] + ["%d a = %d" % (100 + i, i) for i in range(n, 0, -1)])),
    "nested-references": (2, lambda n: wrap(["x = " + "f(" * n + "a" + ")" * n])),
    "nested-array-refs": (2, lambda n: wrap(["x = " + "a(" * n + "i" + ")" * n])),
    "nested-array-constructors": (2, lambda n: wrap(["x = " + "[" * n + "1" + "]" * n])),
    "nested-structure-refs": (2, lambda n: wrap(["x = " + "%".join("c%d(i)" % i for i in range(n + 1))])),
    "nested-paren-and-right": (2, lambda n: wrap(["x = " + "(a .and. " * n + "b" + ")" * n])),
    "nested-paren-or-left": (2, lambda n: wrap(["x = " + "(" * n + "a" + " .or. b)" * n])),
    "nested-paren-eq-eqv": (2, lambda n: wrap(["x = " + "((i .eq. j) .eqv. " * n + "l" + ")" * n])),
    "nested-paren-plus": (2, lambda n: wrap(["x = " + "(a + " * n + "b" + ")" * n])),
    "nested-paren-mixed-ops": (2, lambda n: wrap(["x = " + "".join(["(a * ", "(a .lt. ", "(a // ", "(a ** ", "(.not. "][i % 5] for i in range(n)) + "b" + ")" * n])),
    "nested-paren-defined-op": (2, lambda n: wrap(["x = " + "(a .myop. " * n + "b" + ")" * n])),
    "if-condition-nested-logical": (2, lambda n: wrap(["if (" + "(a .and. " * n + "b" + ")" * n + ") x = 1"])),
    # constructs with several parts: the nested construct sits in the FIRST part
    # and later parts follow (a matcher that finds out late that it chose the wrong
    # form re-parses the first part), or in a later part
    "nested-if-then-with-else": (2, lambda n: nest(lambda i: "if (a > %d) then" % i, lambda i: "else\nb = %d\nend if" % i, n)),
    "nested-if-then-with-elseif": (2, lambda n: nest(lambda i: "if (a > %d) then" % i, lambda i: "else if (a < -%d) then\nb = %d\nelse\nb = 0\nend if" % (i, i), n)),
    "nested-if-in-else": (2, lambda n: nest(lambda i: "if (a > %d) then\nb = %d\nelse" % (i, i), lambda i: "end if", n)),
    "nested-named-if-with-else": (2, lambda n: nest(lambda i: "c%d: if (a > %d) then" % (i, i), lambda i: "else c%d\nb = %d\nend if c%d" % (i, i, i), n)),
    "nested-where-with-elsewhere": (2, lambda n: nest(lambda i: "where (w > %d)" % i, lambda i: "elsewhere\nw = %d\nend where" % i, n, body="w = 1")),
    "nested-select-first-case-of-three": (2, lambda n: nest(lambda i: "select case (k%d)\ncase (%d)" % (i, i), lambda i: "case (-%d)\nb = %d\ncase default\nb = 0\nend select" % (i, i), n)),
    "nested-select-last-case": (2, lambda n: nest(lambda i: "select case (k%d)\ncase (%d)\nb = %d\ncase default" % (i, i, i), lambda i: "end select", n)),
    "nested-do-with-trailing-statements": (2, lambda n: nest(lambda i: "do i%d = 1, 2\nb = %d" % (i, i), lambda i: "b = -%d\nend do" % i, n)),
    # a unary operator in front of the parenthesis at every level
    "nested-paren-unary-minus": (2, lambda n: wrap(["x = " + "-(" * n + "a" + ")" * n])),
    "nested-paren-unary-minus-binary": (2, lambda n: wrap(["x = " + "(-(b + " * n + "a" + "))" * n])),
    "nested-paren-defined-unary": (2, lambda n: wrap(["x = " + ".inv. (" * n + "a" + ")" * n])),
    "nested-paren-not": (2, lambda n: wrap(["l = " + ".not. (" * n + "a" + ")" * n])),
    "nested-if-stmt-in-do": (2, lambda n: nest(lambda i: "do i%d = 1, 2\nif (a > %d) a = %d" % (i, i, i), lambda i: "end do", n)),
}
F2008_ONLY = {"nested-block", "nested-mixed"}
# families measured under BOTH standards (the two parsers use different rule
# classes for DO constructs, so an optimisation can be lost in one of them)
BOTH_STDS = {f for f in FAMILIES if "do" in f or "loops" in f or f.startswith("nested-if") or f in ("nested-if", "repeated-assignments", "nested-references", "flat-sum")}


class Cap(BaseException):
    pass


def measure(family, n, cap, std="f2008"):
    """runs in a forked child: returns (count, outcome)"""
    import logging
    import sys

    logging.disable(logging.CRITICAL)
    # the property is about the number of matching attempts, not about Python's
    # recursion depth: fparser recurses ~35 frames per nesting level, so depth 30
    # would hit the default limit of 1000 and end in RecursionError
    sys.setrecursionlimit(20000)
    from fparser.two.parser import ParserFactory
    from fparser.common.readfortran import FortranStringReader
    from fparser.two.utils import Base

    p = ParserFactory().create(std=std)
    # identical warm-up for every measurement
    p(FortranStringReader("subroutine warm\n a = b + c(1)\n if (a > 0) then\n a = 1\n end if\nend subroutine warm\n"))
    src = FAMILIES[family][1](n)
    counter = [0]
    orig = Base.__new__

    def counting(cls, *a, **k):
        counter[0] += 1
        if counter[0] > cap:
            raise Cap()
        return orig(cls, *a, **k)

    Base.__new__ = staticmethod(counting)
    try:
        p(FortranStringReader(src))
        outcome = "tree"
    except Cap:
        outcome = "cap"
    except BaseException as e:
        outcome = "exc:" + type(e).__name__
    finally:
        Base.__new__ = staticmethod(orig)
    return counter[0], outcome


def plan(tier, seed):
    out = []
    for fam in sorted(FAMILIES):
        out.append((tier, fam, "f2008"))
        if fam in BOTH_STDS and fam not in F2008_ONLY:
            out.append((tier, fam, "f2003"))
    return out


def judge(counts, degree):
    """counts: {n: count} (capped sizes absent).  Returns (kind, detail) or None"""
    ns = sorted(counts)
    # doubling test
    for n in ns:
        if n >= 4 and 2 * n in counts:
            ratio = counts[2 * n] / counts[n]
            if ratio > (2 ** degree) * 1.15:
                return "superpolynomial", "count(%d)=%d, count(%d)=%d: ratio %.2f > %.2f allowed for degree %d" % (n, counts[n], 2 * n, counts[2 * n], ratio, (2 ** degree) * 1.15, degree)
    small = [n for n in ns if n <= 4]
    if small:
        c = max(counts[n] / (n ** degree) for n in small)
        for n in ns:
            if counts[n] > 1.5 * c * (n ** degree):
                return "above-fitted-bound", "count(%d)=%d exceeds 1.5*c*n^%d with c=%.1f fitted on n<=4" % (n, counts[n], degree, c)
    return None


def run(task):
    tier, fam, std = task
    b = BOUNDS[tier]
    res = Result()
    degree = FAMILIES[fam][0]
    counts = {}
    capped_at = None
    for n in range(1, b["N"] + 1):
        cnt, outcome = forktree.run_isolated(measure, fam, n, b["cap"], std)
        res.evals += 1
        res.transitions += 1
        res.states.add(h64(fam, std, str(n)))
        res.nontrivial.add(h64(fam, std, str(n)))
        res.outcomes[outcome] += 1
        if outcome == "cap":
            capped_at = n
            break
        if outcome == "exc:RecursionError" and n > 16:
            # the interpreter's (C-level, not adjustable) recursion limit: each
            # nesting level costs fparser several nested constructor calls.  The
            # family is measured up to the deepest size the interpreter can parse.
            res.caps.append("family %s (%s): interpreter recursion limit reached at n=%d; measured for n < %d" % (fam, std, n, n))
            break
        if outcome != "tree":
            res.violation("C20|model:family-rejected|" + fam, "family %s n=%d: %s\n%s" % (fam, n, outcome, FAMILIES[fam][1](n)), {"family": fam, "tier": tier})
            break
        counts[n] = cnt
        res.results.add(h64(fam, str(cnt)))
    res.extra["coverage"] = {"counts": {fam + "@" + std: [counts.get(n) for n in range(1, b["N"] + 1)]}}
    v = judge(counts, degree)
    if capped_at is not None:
        res.caps.append("family %s (%s): call-count cap %d hit at n=%d" % (fam, std, b["cap"], capped_at))
        if v is None:
            v = ("superpolynomial", "call-count cap %d exceeded at n=%d (count(%d)=%d)" % (b["cap"], capped_at, capped_at - 1, counts.get(capped_at - 1, -1)))
    if v:
        res.violation("C20|%s|%s" % (v[0], fam), ("family %%s (%s, declared degree %%d): %%s\ncounts: %%s\n--- f(3):\n%%s" % std) % (fam, degree, v[1], [counts.get(n) for n in range(1, b["N"] + 1)], FAMILIES[fam][1](3)), {"family": fam, "tier": tier, "std": std}, cost=0)
    res.sample({"family": fam, "counts": [counts.get(n) for n in range(1, min(b["N"], 8) + 1)], "f(2)": FAMILIES[fam][1](2)})
    return res


def finish(res, tier, seed):
    # per-family caps of the known exponential families are findings, not
    # silent caps: exhaustive refers to the families that completed
    pass


def replay(case):
    r = run((case["tier"], case["family"], case.get("std", "f2008")))
    return [{"sig": v["sig"], "detail": v["detail"]} for v in r.violations]
