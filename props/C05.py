"""C05 - fixed-form source is recognised and parses like its free-form
equivalent; free renderings starting in columns 1-5 are detected as free."""
from mc import corpus, layout, explore, stream
from mc import grammar as G
from mc.base import text_of, try_parse, canon, h64, node_classes, first_diff, FortranStringReader
from mc.runner import Result

ID = "C05"
RULE = (
    "for every corpus and layer-A template program: every fixed-form rendering with <= k deviations "
    "(forced wrap width 72/40/26, an extra wrap at any token boundary, continuation mark & 1 + x $ 9, "
    "comment lines C c * ! in gaps and between continuation lines, trailing comments, label "
    "alignment, '0' in column 6, a character literal cut exactly at column 72 at every character) "
    "must be detected as fixed, deliver the model's items, and parse to the tree of the free-form "
    "rendering; every free rendering with indentation 0..4 must be detected as free. "
    "Non-trivial = rendering with >= 1 deviation."
)
ASSUMPTIONS = ["valid class = model G corpus + templates", "fixed-form '!' comment lines start in column 1 (a '!' in columns 2-5 is legal in both forms and carries no form information)"]
BOUNDS = {"quick": dict(k=1, template_k=0, shards=4, focus_k=2), "thorough": dict(k=2, template_k=1, shards=16, k2_only_templates=True, focus_k=3)}


def programs(tier):
    out = [("E/" + k, p) for k, p in sorted(corpus.corpus().items())]
    for t in G.templates():
        sc = G.template_scenario(*t)
        for vec, ch, prog in explore.explore(sc, BOUNDS[tier]["template_k"]):
            out.append(("A/%s/%s" % (t[0], ".".join(map(str, vec))), prog))
    return out


_progs = {}


def _get(tier):
    if tier not in _progs:
        _progs[tier] = programs(tier)
    return _progs[tier]


def plan(tier, seed):
    progs = _get(tier)
    sh = BOUNDS[tier]["shards"]
    tasks = []
    small = []
    for i, (pid, prog) in enumerate(progs):
        if pid.startswith("E/"):
            tasks += [(tier, (i,), s, sh) for s in range(sh)]
        else:
            small.append(i)
    for j in range(0, len(small), 8):
        tasks.append((tier, tuple(small[j : j + 8]), 0, 1))
    fsh = 4 if tier == "quick" else 16
    for i in range(len(layout.focus_programs())):
        for s_ in range(fsh):
            tasks.append((tier, ("focus", i), s_, fsh))
    return tasks


def sig(level, kind, feats):
    return "C05|%s:%s|%s" % (level, kind, ",".join(sorted(feats)) or "canonical")


def same_code(tree, ref_text, cline, ic, ref):
    """comments ignored: the same tree; comments kept: the same printed code
    lines once the inserted comment lines are taken out"""
    if ic:
        return canon(tree) == ref
    got = [l.strip() for l in text_of(tree).split("\n") if l.strip() and l.strip() != cline.strip()]
    return got == [l.strip() for l in ref_text.split("\n") if l.strip()]


def judge_fixed(lay, std, ref):
    out = []
    text = lay.text
    for ic in (True, False):
        try:
            r, items = stream.read_all(text, ignore_comments=ic)
        except BaseException as e:
            out.append(("reader", "raises:" + type(e).__name__, repr(e)[:200]))
            break
        if r.format.mode != "fix":
            out.append(("detect", "fixed-seen-as-" + r.format.mode, "fixed-form rendering classified as %r" % r.format.mode))
            return out
        k, d = stream.check_items(lay, items, ic)
        if k:
            out.append(("reader-ic%d" % ic, k, d))
            break
    o = try_parse(text, std)
    if not o.ok:
        out.append(("parser", "rejected:" + o.klass(), (o.msg or "")[:300]))
    elif canon(o.tree) != ref:
        out.append(("parser", "tree-differs", "A = fixed-form tree, B = free-form tree; " + first_diff(canon(o.tree), ref)))
    return out


def run(task):
    tier, idxs, shard, nshards = task
    res = Result()
    progs = _get(tier)
    k = BOUNDS[tier]["k"]
    focus = idxs and idxs[0] == "focus"
    if focus:
        name, fprog, fonly = layout.focus_programs()[idxs[1]]
        idxs = (0,)
    for i in idxs:
        pid, prog = progs[i]
        fopts = None
        if focus:
            pid, prog, fopts = "F/" + name, fprog, {"only": fonly}
        std = G.prog_std(prog)
        free = layout.canonical_text(prog)
        o0 = try_parse(free, std)
        if not o0.ok:
            res.violation("C05|model:canonical-rejected|" + pid, str(o0.msg), {"pid": pid, "tier": tier, "vec": [], "mode": "fixed"})
            continue
        ref = canon(o0.tree)
        ref_text = text_of(o0.tree)
        res.classes |= node_classes(o0.tree)
        # (1) free renderings with the first statement in columns 1-5
        if shard == 0:
            for ind in range(0, 5):
                text = "\n".join(" " * ind + l.strip() for l in free.strip("\n").split("\n")) + "\n"
                first = text.lstrip("\n")[ind : ind + 1]
                if ind == 0 and first in "cC*!":
                    continue  # column-1 C/c/*/! is a legal fixed-form comment: inherently ambiguous
                res.evals += 1
                res.states.add(h64(text))
                mode = FortranStringReader(text).format.mode
                res.outcomes["free-detect:" + mode] += 1
                if mode != "free":
                    res.violation(sig("detect", "free-seen-as-" + mode, ["indent%d" % ind]), "%s: free rendering with indent %d classified %r\n%s" % (pid, ind, mode, text), {"pid": pid, "tier": tier, "mode": "free", "indent": ind}, cost=len(text))
        # (1b) a long run of comment lines (licence header, commented-out
        # block) in front of the first statement and between two statements:
        # length must not matter (n = 1500 exceeds Python's default recursion depth)
        if focus and shard == 0 and idxs == (0,) and name == layout.focus_programs()[0][0]:
            ch0, lay0 = explore.run(lambda ch: layout.render_fixed(prog, ch, fopts), ())
            fl = lay0.text.rstrip("\n").split("\n")
            for n in (200, 1500):
                for cline in ("C comment", "* star", "! bang", ""):
                    for at in (0, 1):
                        text = "\n".join(fl[:at] + [cline] * n + fl[at:]) + "\n"
                        for ic in (True, False):
                            res.evals += 1
                            hk = h64(text, std, str(ic))
                            res.states.add(hk)
                            res.nontrivial.add(hk)
                            o = try_parse(text, std, ignore_comments=ic)
                            from mc.base import walk as _walk, Base as _Base

                            okc = o.ok and same_code(o.tree, ref_text, cline, ic, ref)
                            res.outcomes["long-comment-run:" + ("ok" if okc else "differs")] += 1
                            if not okc:
                                res.violation("C05|long-comment-run|%s" % ("rejected:" + o.klass() if not o.ok else "tree-differs"), "%s: %d lines %r before line %d of the fixed-form rendering, ignore_comments=%s: %s" % (pid, n, cline, at + 1, ic, (o.msg or "")[:200] if not o.ok else "tree differs from the free-form tree"), {"pid": pid, "tier": tier, "mode": "long", "n": n, "cline": cline, "at": at, "ic": ic}, cost=n)
        # (2) fixed renderings
        kk = k if (pid.startswith("A/") or k == 1 or not BOUNDS[tier].get("k2_only_templates")) else 1
        if focus:
            kk = BOUNDS[tier]["focus_k"]
        stats = {}
        n = 0
        for vec, ch, lay in explore.explore(lambda ch: layout.render_fixed(prog, ch, fopts), kk, stats):
            n += 1
            if n % nshards != shard:
                continue
            res.evals += 1
            hk = h64(lay.text, std)
            res.states.add(hk)
            if vec:
                res.nontrivial.add(hk)
            vs = judge_fixed(lay, std, ref)
            res.outcomes["ok" if not vs else vs[0][0] + ":" + vs[0][1]] += 1
            res.results.add(hk)
            for f in lay.features:
                res.counters["feat:" + f.split(":")[0]] += 1
            for level, kind, detail in vs:
                res.violation(sig(level, kind, lay.features), "%s vec=%s std=%s\n%s\n--- fixed-form rendering:\n%s" % (pid, list(vec), std, detail, lay.text), {"pid": pid, "tier": tier, "vec": list(vec), "mode": "fixed"}, cost=len(vec) * 100000 + len(lay.text))
            if res.evals % 300 == 1:
                res.sample({"program": pid, "vector": list(vec), "fixed_form": lay.text})
        if shard == 0:
            res.transitions += stats.get("decisions", 0)
    return res


def judge_text(fixed, free, std, feats):
    """self-contained judgement of one fixed-form text against its free-form
    equivalent (used for committed witnesses: no dependence on the layout
    model's choice numbering)"""
    out = []
    mode = FortranStringReader(fixed).format.mode
    if mode != "fix":
        out.append(("detect", "fixed-seen-as-" + mode, "classified %r" % mode))
        return out
    o0 = try_parse(free, std)
    o = try_parse(fixed, std)
    if not o.ok:
        out.append(("parser", "rejected:" + o.klass(), (o.msg or "")[:300]))
    elif canon(o.tree) != canon(o0.tree):
        out.append(("parser", "tree-differs", first_diff(canon(o.tree), canon(o0.tree))))
    return out


def replay(case):
    if case.get("mode") == "text":
        return [{"sig": sig(l, k, case["features"]), "detail": d} for l, k, d in judge_text(case["fixed"], case["free"], case["std"], case["features"])]
    fopts = None
    if case["pid"].startswith("F/"):
        name, prog, fonly = [f for f in layout.focus_programs() if "F/" + f[0] == case["pid"]][0]
        fopts = {"only": fonly}
    else:
        progs = dict(_get(case["tier"]))
        prog = progs[case["pid"]]
    std = G.prog_std(prog)
    free = layout.canonical_text(prog)
    if case["mode"] == "free":
        ind = case["indent"]
        text = "\n".join(" " * ind + l.strip() for l in free.strip("\n").split("\n")) + "\n"
        mode = FortranStringReader(text).format.mode
        return [] if mode == "free" else [{"sig": sig("detect", "free-seen-as-" + mode, ["indent%d" % ind]), "detail": text}]
    ref = canon(try_parse(free, std).tree)
    if case["mode"] == "long":
        ch0, lay0 = explore.run(lambda ch: layout.render_fixed(prog, ch, fopts), ())
        fl = lay0.text.rstrip("\n").split("\n")
        text = "\n".join(fl[: case["at"]] + [case["cline"]] * case["n"] + fl[case["at"] :]) + "\n"
        o = try_parse(text, std, ignore_comments=case["ic"])
        if o.ok and same_code(o.tree, text_of(try_parse(free, std).tree), case["cline"], case["ic"], ref):
            return []
        return [{"sig": "C05|long-comment-run|%s" % ("rejected:" + o.klass() if not o.ok else "tree-differs"), "detail": (o.msg or "")[:200] if not o.ok else "tree differs"}]
    ch, lay = explore.run(lambda ch: layout.render_fixed(prog, ch, fopts), case["vec"])
    return [{"sig": sig(l, k, lay.features), "detail": d} for l, k, d in judge_fixed(lay, std, ref)]
