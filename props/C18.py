"""C18 - parse trees can be deep-copied and pickled faithfully."""
import copy
import pickle
from mc import scenarios, oracles
from mc import grammar as G
from mc.base import try_parse, canon, text_of, h64, node_classes, Base
from mc.runner import Result

ID = "C18"
RULE = (
    "E1 enumeration of model G layers A-D x std x {comments dropped, comments kept, directives "
    "processed}, plus a corpus with CPP lines and unresolved INCLUDEs; every tree is deep-copied "
    "and pickled; str/canon equality, C10 well-formedness of the copy, node-identity disjointness "
    "and independence under mutation of the copy are evaluated. Non-trivial = tree with >= 10 nodes."
)
ASSUMPTIONS = ["valid class = model G", "trees come from string readers (a file reader's open file object is outside the quantifier)"]
BOUNDS = scenarios.BOUNDS

EXTRA = [
    "#define X 1\nprogram p\n#ifdef X\n integer :: i\n#else\n real :: i\n#endif\n include 'nofile.inc'\n i = 1 ! trailing\n !$omp parallel\n !dir$ ivdep\n do i = 1, 2\n# 12 \"f.f90\"\n end do\n#undef X\nend program p\n",
    "module m\n ! c1\n#include \"x.h\"\n include \"missing.h\"\ncontains\n subroutine s\n !$acc loop\n#warning w\n#error e\n#line 3\n#\n end subroutine s\nend module m\n",
    "#if defined(A) && \\\n   defined(B)\nsubroutine s\n#define F(a,b) a+b\n x = 1\n#elif C\n#endif\nend subroutine s\n",
]
CONFIGS = [("ic", dict(ignore_comments=True)), ("keep", dict(ignore_comments=False)), ("dir", dict(ignore_comments=False, process_directives=True))]


def plan(tier, seed):
    ts = scenarios.tasks(tier)
    if tier == "quick":
        # layers A, B(d<=2), S, D(n=1) in quick; everything in thorough
        ts = [t for t in ts if t[0] in ("A", "S", "C") or (t[0] == "B" and t[2] <= 2) or (t[0] == "D" and t[2] == 1)]
    return ts + [("X", i) for i in range(len(EXTRA))]


def ids(tree):
    out = set()
    stack = [tree]
    while stack:
        n = stack.pop()
        if isinstance(n, Base):
            out.add(id(n))
            stack.extend(oracles.iter_children(n))
    return out


def mutate_leaf(tree):
    """change the text of some leaf of `tree` in place; returns True if done"""
    from fparser.two.utils import StringBase

    stack = [tree]
    while stack:
        n = stack.pop()
        if isinstance(n, StringBase) and isinstance(getattr(n, "string", None), str) and n.string:
            n.string = n.string + "_zz"
            return True
        if isinstance(n, Base):
            stack.extend(oracles.iter_children(n))
    return False


def judge(tree):
    """list of (kind, detail) for one tree"""
    out = []
    s0, c0 = str(tree), canon(tree)
    ids0 = ids(tree)
    for how in ("deepcopy", "pickle"):
        try:
            cp = copy.deepcopy(tree) if how == "deepcopy" else pickle.loads(pickle.dumps(tree))
        except BaseException as e:
            where = "?"
            tb = e.__traceback__
            while tb is not None:
                if "/fparser/" in tb.tb_frame.f_code.co_filename:
                    where = tb.tb_frame.f_code.co_qualname if hasattr(tb.tb_frame.f_code, "co_qualname") else tb.tb_frame.f_code.co_name
                tb = tb.tb_next
            out.append(("%s-raises:%s@%s" % (how, type(e).__name__, where), repr(e)[:300]))
            continue
        try:
            if str(cp) != s0:
                out.append((how + "-text-differs", "str(copy):\n%s\n--- str(T):\n%s" % (str(cp), s0)))
            elif canon(cp) != c0:
                out.append((how + "-structure-differs", "%s\n!=\n%s" % (canon(cp), c0)))
            probs = oracles.wellformed(cp)
            if probs:
                out.append((how + "-copy-malformed", "\n".join(probs)))
            shared = ids(cp) & ids0
            if shared:
                out.append((how + "-shares-nodes", "%d node objects shared with the original" % len(shared)))
            if mutate_leaf(cp) and str(tree) != s0:
                out.append((how + "-mutation-leaks", "modifying the copy changed str(original)"))
        except BaseException as e:
            out.append(("%s-copy-unusable:%s" % (how, type(e).__name__), repr(e)[:300]))
    return out


def check_src(res, cid, src, std, cname, opts, tag, before=()):
    res.evals += 1
    hk = h64(src, std, cname)
    res.states.add(hk)
    o = try_parse(src, std, **opts)
    if not o.ok:
        res.outcomes["not-parsed:" + o.klass()] += 1
        return
    res.classes |= node_classes(o.tree)
    res.results.add(h64(canon(o.tree)))
    if len(ids(o.tree)) >= 10:
        res.nontrivial.add(hk)
    vs = judge(o.tree)
    res.outcomes["faithful" if not vs else "unfaithful"] += 1
    for kind, detail in vs:
        res.violation("C18|%s" % kind, "%s std=%s config=%s\n%s\n--- source:\n%s" % (cid, std, cname, detail, src), {"src": src, "std": std, "config": cname, "cid": cid, "before": [list(x) for x in before]}, cost=len(src) + 10 * len(before))


def check_case(res, cid, prog, tag):
    plain = G.render(prog)
    com = scenarios.with_comments(prog)
    # the trees of ONE source under every standard / reader configuration are
    # copied one after the other in one process (copying must not remember
    # anything): the sequence so far is part of a violation's replay case
    seq = []
    for std in G.stds_for(prog):
        for cname, opts in CONFIGS:
            src = plain if cname == "ic" else com
            check_src(res, cid, src, std, cname, opts, tag, before=seq)
            seq.append((src, std, cname))


def run(task):
    if task[0] == "X":
        res = Result()
        seq = []
        for std in ("f2003", "f2008"):
            for cname, opts in CONFIGS:
                check_src(res, "X/%d/" % task[1], EXTRA[task[1]], std, cname, opts, "X", before=seq)
                seq.append((EXTRA[task[1]], std, cname))
        res.sample({"case": "X/%d" % task[1], "source": EXTRA[task[1]]})
        return res
    return scenarios.run_task(task, check_case)


def replay(case):
    for src, std, cname in case.get("before", []):
        o = try_parse(src, std, **dict(CONFIGS)[cname])
        if o.ok:
            judge(o.tree)
    opts = dict(CONFIGS)[case["config"]]
    o = try_parse(case["src"], case["std"], **opts)
    if not o.ok:
        return []
    return [{"sig": "C18|%s" % k, "detail": d} for k, d in judge(o.tree)]
