"""C13 - INCLUDE resolution is transparent; unresolved includes are kept."""
import os
import shutil
import tempfile
from mc import corpus
from mc import grammar as G
from mc.base import try_parse, canon, text_of, h64, FortranStringReader, FortranFileReader, first_diff
from mc.runner import Result

ID = "C13"
RULE = (
    "for every corpus program (statement list of length n): EVERY interval [i,j) of whole statements "
    "moved into an include file (n(n+1)/2 splits) x reader kind {string, file} x include_dirs ordering "
    "{[d1]; [d1,d2] file only in d2; file in both with different content in d2 - first must win} x "
    "ignore_comments; every pair of disjoint intervals and every nested pair (an interval of the "
    "include file moved into a second file) for programs with n <= N2; absent-file case: every single "
    "removable statement replaced by an INCLUDE line whose file does not exist. Oracles: tree == tree "
    "of the original text; absent: the printed text is the original's with that line replaced by "
    "INCLUDE '<name>' (an Include_Stmt node at that position); histories: ALL sequences of length <= 3 (4) over "
    "{file absent, present in the 1st directory, present in the 2nd only} of parses of one main text in ONE process "
    "(each history in a forked child), every step judged. Non-trivial = every case."
)
ASSUMPTIONS = ["include files are rendered flat with one leading blank so that their own source form is unambiguously free", "corpus E"]
FRESH_WORKER_PER_TASK = True  # the history layer needs processes that have parsed nothing
BOUNDS = {"quick": dict(pairs_max_n=20, pair_stride=3), "thorough": dict(pairs_max_n=32, pair_stride=1, triples=True)}


def lines_of(prog):
    """one source line per statement (depth-indented for the main file)"""
    ds = corpus.depths(prog)
    return [" " * (1 + 2 * d) + s.line() for s, d in zip(prog, ds) if s.kind != "program_anon"]


def flat(lines):
    return "".join(" " + l.strip() + "\n" for l in lines)


def plan(tier, seed):
    tasks = []
    for pid, prog in sorted(corpus.corpus().items()):
        n = len(prog)
        for sh in range(4):
            tasks.append(("single", tier, pid, sh, 4))
        tasks.append(("absent", tier, pid))
        if tier != "quick" or pid in ("P1", "P5", "P8"):
            tasks.append(("hist", tier, pid))
        if n <= BOUNDS[tier]["pairs_max_n"]:
            for sh in range(4):
                tasks.append(("pairs", tier, pid, sh, 4))
                tasks.append(("nested", tier, pid, sh, 4))
            if n <= 20:
                for sh in range(4):
                    tasks.append(("nested3", tier, pid, sh, 4))
    return tasks


class Work:
    def __init__(self):
        self.tmp = tempfile.mkdtemp(prefix="c13_")
        self.d1 = os.path.join(self.tmp, "d1")
        self.d2 = os.path.join(self.tmp, "d2")
        os.mkdir(self.d1)
        os.mkdir(self.d2)

    def clear(self):
        for d in (self.d1, self.d2):
            for f in os.listdir(d):
                os.unlink(os.path.join(d, f))
        for f in os.listdir(self.tmp):
            if f.endswith(".inc"):
                os.unlink(os.path.join(self.tmp, f))

    def decoys(self, names):
        """same-named files with different content BESIDE the main source:
        they are not on the include path and must never be used"""
        for n in names:
            open(os.path.join(self.tmp, n), "w").write(" zzdecoy = 1\n")

    def close(self):
        shutil.rmtree(self.tmp, ignore_errors=True)


def parse_with(work, main, reader_kind, dirs, std, ic):
    if reader_kind == "string":
        return try_parse(None, std, reader_factory=lambda: FortranStringReader(main, include_dirs=dirs, ignore_comments=ic))
    path = os.path.join(work.tmp, "main.f90")
    with open(path, "w") as f:
        f.write(main)
    return try_parse(None, std, reader_factory=lambda: FortranFileReader(path, include_dirs=dirs, ignore_comments=ic))


def self_identifying(content):
    """Does this include file's own text identify it as free form?  The form
    of an include file is guessed from its own text: a file all of whose lines
    have only blanks and digits in columns 1-5 (e.g. only labelled statements)
    is, legitimately, taken as fixed form.  Such files are outside the model."""
    import re

    for line in content.split("\n"):
        if line.strip() and not line.lstrip().lower().startswith("include") and re.search(r"[^\s\d]", line[:5]):
            return True
    return False


def check(res, work, pid, std, ref, main, files, desc, feat, configs):
    """files: {name: content}; configs: list of (reader_kind, dir_mode, ic)"""
    if not all(self_identifying(c) for c in files.values()):
        res.counters["excluded_not_self_identifying"] += 1
        return
    for reader_kind, dir_mode, ic in configs:
        work.clear()
        if dir_mode == "d1":
            for n, c in files.items():
                open(os.path.join(work.d1, n), "w").write(c)
            dirs = [work.d1]
        elif dir_mode == "d2only":
            for n, c in files.items():
                open(os.path.join(work.d2, n), "w").write(c)
            dirs = [work.d1, work.d2]
        elif dir_mode == "split":
            # the outermost include file is found in the SECOND directory
            # only; the files it includes are on the path in the first
            # directory, and same-named decoys sit next to the including file
            names = sorted(files)
            open(os.path.join(work.d2, names[0]), "w").write(files[names[0]])
            for n in names[1:]:
                open(os.path.join(work.d1, n), "w").write(files[n])
                open(os.path.join(work.d2, n), "w").write(" zzwrong = 1\n")
            dirs = [work.d1, work.d2]
        else:  # both: d1 has the right content, d2 a different one
            for n, c in files.items():
                open(os.path.join(work.d1, n), "w").write(c)
                open(os.path.join(work.d2, n), "w").write(" zzwrong = 1\n")
            dirs = [work.d1, work.d2]
        if reader_kind == "file":
            work.decoys(files)
        res.evals += 1
        res.transitions += 1
        hk = h64(main, repr(sorted(files.items())), reader_kind, dir_mode, str(ic), std)
        res.states.add(hk)
        res.nontrivial.add(hk)
        o = parse_with(work, main, reader_kind, dirs, std, ic)
        if not o.ok:
            kind, detail = "rejected:" + o.klass(), (o.msg or "")[:300]
        elif canon(o.tree) != ref:
            kind, detail = "tree-differs", "A = with includes, B = original; " + first_diff(canon(o.tree), ref)
        else:
            kind = None
        res.outcomes[kind or "ok"] += 1
        res.results.add(h64(main))
        if kind:
            res.violation(
                "C13|%s|%s|%s,%s" % (kind, feat, reader_kind, dir_mode),
                "%s %s reader=%s dirs=%s ic=%s std=%s\n%s\n--- main:\n%s\n--- include files:\n%s" % (pid, desc, reader_kind, dir_mode, ic, std, detail, main, "\n".join("[%s]\n%s" % kv for kv in sorted(files.items()))),
                {"mode": "resolved", "main": main, "files": files, "reader": reader_kind, "dirs": dir_mode, "ic": ic, "std": std, "ref_src": None, "pid": pid, "feat": feat},
                cost=len(main) + sum(len(c) for c in files.values()),
            )


FULL_CONFIGS = [("string", "d1", True), ("file", "d1", True), ("string", "d2only", True), ("file", "both", True), ("string", "d1", False), ("file", "d2only", False)]
LIGHT_CONFIGS = [("string", "d1", True), ("file", "both", False)]
NESTED_CONFIGS = [("string", "split", True), ("file", "both", False), ("file", "split", True)]


def boundary_feature(prog, i, j):
    """does the interval cut across construct boundaries?"""
    ds = corpus.depths(prog)
    roles = set(s.role for s in prog[i:j])
    bal = 0
    crosses = False
    for s in prog[i:j]:
        if s.role == "open":
            bal += 1
        elif s.role == "close":
            bal -= 1
            if bal < 0:
                crosses = True
    if bal != 0:
        crosses = True
    return "crossing" if crosses else "balanced"


def run(task):
    kind, tier, pid = task[0], task[1], task[2]
    prog = corpus.corpus()[pid]
    std = G.prog_std(prog)
    L = lines_of(prog)
    n = len(L)
    full = "\n".join(L) + "\n"
    res = Result()
    if kind == "hist":
        # nothing is parsed in this process: every history runs in a forked
        # child of a process that has parsed nothing
        return run_hist_task(res, task, prog, std, L, full)
    o0 = try_parse(full, std)
    if not o0.ok:
        res.violation("C13|model:base-rejected|" + pid, str(o0.msg), {"mode": "none"})
        return res
    ref = canon(o0.tree)
    work = Work()
    try:
        if kind == "single":
            sh, nsh = task[3], task[4]
            k = 0
            for i in range(n):
                for j in range(i + 1, n + 1):
                    k += 1
                    if k % nsh != sh:
                        continue
                    # spellings of the INCLUDE line (all valid): blank / no blank before the
                    # quote, either quote, case, extra blanks
                    spell = ["  include 'inc1.inc'", "  include'inc1.inc'", '  INCLUDE"inc1.inc"', "  Include   'inc1.inc'   "][(i + j) % 4]
                    main = "\n".join(L[:i] + [spell] + L[j:]) + "\n"
                    check(res, work, pid, std, ref, main, {"inc1.inc": flat(L[i:j])}, "interval [%d,%d)" % (i, j), boundary_feature(prog, i, j), FULL_CONFIGS if (j - i) <= 3 or k % 5 == 0 else LIGHT_CONFIGS)
            res.sample({"program": pid, "split": "[%d,%d)" % (1, min(4, n)), "main": "\n".join(L[:1] + ["  include 'inc1.inc'"] + L[min(4, n):]), "inc1.inc": flat(L[1 : min(4, n)])})
        elif kind == "pairs":
            sh, nsh = task[3], task[4]
            stride = BOUNDS[tier]["pair_stride"]
            k = 0
            for i in range(n):
                for j in range(i + 1, n + 1):
                    for a in range(j, n):
                        for b in range(a + 1, n + 1):
                            k += 1
                            if k % nsh != sh or (k // nsh) % stride:
                                continue
                            main = "\n".join(L[:i] + [" include 'inc1.inc'"] + L[j:a] + ["   INCLUDE \"inc2.inc\""] + L[b:]) + "\n"
                            check(res, work, pid, std, ref, main, {"inc1.inc": flat(L[i:j]), "inc2.inc": flat(L[a:b])}, "intervals [%d,%d) [%d,%d)" % (i, j, a, b), "pair", LIGHT_CONFIGS)
        elif kind == "nested":
            sh, nsh = task[3], task[4]
            stride = BOUNDS[tier]["pair_stride"]
            k = 0
            for i in range(n):
                for j in range(i + 1, n + 1):
                    for a in range(i, j):
                        for b in range(a + 1, j + 1):
                            k += 1
                            if k % nsh != sh or (k // nsh) % stride:
                                continue
                            main = "\n".join(L[:i] + [" include 'inc1.inc'"] + L[j:]) + "\n"
                            inc1 = flat(L[i:a]) + " include 'inc2.inc'\n" + flat(L[b:j])
                            check(res, work, pid, std, ref, main, {"inc1.inc": inc1, "inc2.inc": flat(L[a:b])}, "interval [%d,%d) with nested [%d,%d)" % (i, j, a, b), "nested", NESTED_CONFIGS[k % 3 : k % 3 + 1] + LIGHT_CONFIGS[:1])
        elif kind == "nested3":
            # three levels: main -> inc1 -> inc2 -> inc3
            sh, nsh = task[3], task[4]
            stride = 60 if tier == "quick" else 4
            k = 0
            for i in range(n):
                for j in range(i + 3, n + 1):
                    for a in range(i, j):
                        for b in range(a + 2, j + 1):
                            for c in range(a, b):
                                for d in range(c + 1, b + 1):
                                    k += 1
                                    if k % nsh != sh or (k // nsh) % stride:
                                        continue
                                    main = "\n".join(L[:i] + [" include 'inc1.inc'"] + L[j:]) + "\n"
                                    inc1 = flat(L[i:a]) + " include 'inc2.inc'\n" + flat(L[b:j])
                                    inc2 = flat(L[a:c]) + " INCLUDE \"inc3.inc\"\n" + flat(L[d:b])
                                    check(res, work, pid, std, ref, main, {"inc1.inc": inc1, "inc2.inc": inc2, "inc3.inc": flat(L[c:d])}, "3-deep [%d,%d) [%d,%d) [%d,%d)" % (i, j, a, b, c, d), "nested3", NESTED_CONFIGS[k % 3 : k % 3 + 1])
        elif kind == "absent":
            base_lines = [l.strip() for l in text_of(o0.tree).split("\n") if l.strip()]
            if len(base_lines) != n:
                res.violation("C13|model:line-count|" + pid, "printed %d lines for %d statements" % (len(base_lines), n), {"mode": "none"})
                return res
            ds = corpus.depths(prog)
            stmts = [s for s in prog if s.kind != "program_anon"]
            for i, s in enumerate(stmts):
                # the INCLUDE line must be valid as a statement at this
                # position: replace one simple, unlabelled statement that is
                # inside a specification or execution part
                if s.role != "simple" or s.label or i == 0:
                    continue
                if stmts[i - 1].kind in ("select",) or stmts[i - 1].text.lower().startswith(("select", "interface", "abstract interface", "enum")):
                    continue  # directly after SELECT CASE / INTERFACE only CASE / bodies may follow
                inside = [t for t in stmts[:i] if t.role == "open"]
                if s.kind in ("enumerator", "module", "procedure", "generic", "final", "import") or s.text.lower().startswith(("module procedure", "enumerator", "procedure", "generic", "final")):
                    continue
                main = "\n".join(L[:i] + ["   include 'absent_file.inc'"] + L[i + 1 :]) + "\n"
                for reader_kind in ("string", "file"):
                    for ic in (True, False):
                        work.clear()
                        if reader_kind == "file":
                            work.decoys(["absent_file.inc"])
                        res.evals += 1
                        res.transitions += 1
                        hk = h64(main, reader_kind, str(ic))
                        res.states.add(hk)
                        res.nontrivial.add(hk)
                        o = parse_with(work, main, reader_kind, [work.d1], std, ic)
                        kind2, detail = judge_absent(o, base_lines, i)
                        res.outcomes[kind2 or "ok-absent"] += 1
                        if kind2:
                            res.violation("C13|absent:%s|%s" % (kind2, where_tag(stmts, i)), "%s statement %d %r replaced by an INCLUDE of a missing file; reader=%s ic=%s\n%s\n--- main:\n%s" % (pid, i + 1, s.line(), reader_kind, ic, detail, main), {"mode": "absent", "main": main, "reader": reader_kind, "ic": ic, "std": std, "base_lines": base_lines, "i": i, "tag": where_tag(stmts, i)}, cost=len(main))
            # the INCLUDE line INSERTED between two statements of an execution
            # part (before every executable statement, opener, END DO ...)
            for i in range(1, len(stmts)):
                if not (exec_like(stmts[i - 1]) and exec_like(stmts[i])) or stmts[i - 1].text.lower().startswith("select"):
                    continue
                main = "\n".join(L[:i] + ["   include 'absent_file.inc'"] + L[i:]) + "\n"
                for reader_kind in ("string", "file"):
                    for ic in (True, False):
                        work.clear()
                        if reader_kind == "file":
                            work.decoys(["absent_file.inc"])
                        res.evals += 1
                        res.transitions += 1
                        hk = h64(main, reader_kind, str(ic), "ins")
                        res.states.add(hk)
                        res.nontrivial.add(hk)
                        o = parse_with(work, main, reader_kind, [work.d1], std, ic)
                        kind2, detail = judge_absent(o, base_lines, i, insert=True)
                        res.outcomes[kind2 or "ok-absent-inserted"] += 1
                        if kind2:
                            res.violation("C13|absent-inserted:%s|before %s" % (kind2, stmts[i].kind), "%s INCLUDE of a missing file inserted before statement %d %r; reader=%s ic=%s\n%s\n--- main:\n%s" % (pid, i + 1, stmts[i].line(), reader_kind, ic, detail, main), {"mode": "absent", "insert": True, "main": main, "reader": reader_kind, "ic": ic, "std": std, "base_lines": base_lines, "i": i, "tag": "before " + stmts[i].kind}, cost=len(main))
            # the INCLUDE line OUTSIDE the program units (before the first, between two,
            # after the last), in three spellings of the keyword
            ds0 = corpus.depths(prog)
            real = [(s, d) for s, d in zip(prog, ds0) if s.kind != "program_anon"]
            if len(real) == len(stmts) and not any(s.kind == "program_anon" for s in prog):
                bounds = [i for i, (s, d) in enumerate(real) if d == 0 and s.role == "open"] + [len(real)]
                for bi, i in enumerate(bounds):
                    kw = ["INCLUDE", "Include", "include"][bi % 3]
                    main = "\n".join(L[:i] + [" %s 'absent_file.inc'" % kw] + L[i:]) + "\n"
                    for reader_kind in ("string", "file"):
                        for ic in (True, False):
                            work.clear()
                            res.evals += 1
                            res.transitions += 1
                            hk = h64(main, reader_kind, str(ic), "between")
                            res.states.add(hk)
                            res.nontrivial.add(hk)
                            o = parse_with(work, main, reader_kind, [work.d1], std, ic)
                            kind2, detail = judge_absent(o, base_lines, i, insert=True)
                            res.outcomes[kind2 or "ok-absent-between-units"] += 1
                            if kind2:
                                res.violation("C13|absent-between-units:%s|%s" % (kind2, kw), "%s %s of a missing file before line %d (outside the program units); reader=%s ic=%s\n%s\n--- main:\n%s" % (pid, kw, i + 1, reader_kind, ic, detail, main), {"mode": "absent", "insert": True, "between": kw, "main": main, "reader": reader_kind, "ic": ic, "std": std, "base_lines": base_lines, "i": i, "tag": kw}, cost=len(main))
    finally:
        work.close()
    return res


HIST_OPS = ["A", "P", "Q"]  # file Absent / Present in the first directory / present in the second only


def eligible(stmts):
    """positions whose statement may be replaced by an INCLUDE line"""
    out = []
    for i, s in enumerate(stmts):
        if s.role != "simple" or s.label or i == 0:
            continue
        if stmts[i - 1].kind in ("select",) or stmts[i - 1].text.lower().startswith(("select", "interface", "abstract interface", "enum")):
            continue
        if s.kind in ("enumerator", "module", "procedure", "generic", "final", "import") or s.text.lower().startswith(("module procedure", "enumerator", "procedure", "generic", "final")):
            continue
        out.append(i)
    return out


def run_history(case):
    """one history of parses of the SAME main text (statement i replaced by
    INCLUDE 'absent_file.inc') in one process, the include file coming and
    going between the parses; returns the first discrepancy (kind, detail,
    step) or None.  Always executed in a forked child: process state is
    exactly that of the history."""
    work = Work()
    try:
        o0 = try_parse(case["full"], case["std"])
        ref = canon(o0.tree)
        for k, (op, reader_kind) in enumerate(zip(case["ops"], case["readers"])):
            work.clear()
            if op == "P":
                open(os.path.join(work.d1, "absent_file.inc"), "w").write(case["inc"])
            elif op == "Q":
                open(os.path.join(work.d2, "absent_file.inc"), "w").write(case["inc"])
            o = parse_with(work, case["main"], reader_kind, [work.d1, work.d2], case["std"], True)
            if op == "A":
                kind, detail = judge_absent(o, case["base_lines"], case["i"])
                if kind:
                    return ("absent:" + kind, detail, k)
            elif not o.ok:
                return ("rejected:" + o.klass(), (o.msg or "")[:300], k)
            elif canon(o.tree) != ref:
                return ("tree-differs", "A = with include, B = original; " + first_diff(canon(o.tree), ref), k)
    finally:
        work.close()
    return None


def hist_sig(case, kind, k):
    ops = case["ops"]
    return "C13|history:%s|%s after %s" % (kind, ops[k], "".join(sorted(set(ops[:k]))) or "nothing")


def _base_lines(full, std):
    o0 = try_parse(full, std)
    return [l.strip() for l in text_of(o0.tree).split("\n") if l.strip()] if o0.ok else []


def run_hist_task(res, task, prog, std, L, full):
    import itertools
    from mc.forktree import run_isolated

    kind, tier, pid = task[0], task[1], task[2]
    n = len(L)
    base_lines = run_isolated(_base_lines, full, std)
    stmts = [s for s in prog if s.kind != "program_anon"]
    pos = eligible(stmts) if len(base_lines) == n else []
    if tier == "quick":
        pos = pos[:: max(1, len(pos) // 2)][:2]
    maxlen = 3 if tier == "quick" else 4
    for i in pos:
        main = "\n".join(L[:i] + ["   include 'absent_file.inc'"] + L[i + 1 :]) + "\n"
        for ln in range(2, maxlen + 1):
            for ops in itertools.product(HIST_OPS, repeat=ln):
                for readers in (("string",) * ln, ("file",) * ln, tuple(("string", "file")[q % 2] for q in range(ln))):
                    case = {"mode": "history", "full": full, "main": main, "inc": flat(L[i : i + 1]), "ops": list(ops), "readers": list(readers), "std": std, "base_lines": base_lines, "i": i}
                    res.evals += 1
                    res.transitions += ln
                    hk = h64(main, repr(ops), repr(readers))
                    res.states.add(hk)
                    res.nontrivial.add(hk)
                    out = run_isolated(run_history, case)
                    res.outcomes["history:" + (out[0] if out else "ok")] += 1
                    res.results.add(h64(repr(ops), repr(out and out[0])))
                    if out:
                        if out[0] == "HARNESS-ERROR":
                            res.violation("C13|harness|history", out[1], case)
                            continue
                        kind2, detail, k = out
                        res.violation(hist_sig(case, kind2, k), "%s statement %d replaced by INCLUDE 'absent_file.inc'; history %s (A = file absent, P = present in the 1st include directory, Q = present in the 2nd only), readers %s; parse number %d:\n%s\n--- main:\n%s" % (pid, i + 1, "".join(ops), list(readers), k + 1, detail, main), case, cost=ln * 100000 + len(main))
    res.sample({"program": pid, "history": "A P A (file absent, present, absent again)", "main": main if pos else ""})
    return res


def where_tag(stmts, i):
    opens = []
    for t in stmts[:i]:
        if t.role == "open":
            opens.append(t.kind)
        elif t.role == "close" and opens:
            opens.pop()
    return opens[-1] if opens else "top"


_EXEC_RE = None


def exec_like(s):
    """is s an executable statement / part of an executable construct?  (model
    side: decided from the corpus text the model wrote itself)"""
    global _EXEC_RE
    import re

    if _EXEC_RE is None:
        _EXEC_RE = re.compile(
            r"(?i)^(\w+(\([^=]*\))?(%\w+(\([^=]*\))?)*\s*=[^=>]|call\b|print\b|write\s*\(|read\b|if\s*\(|go\s*to\b|goto\b|stop\b|return\b|allocate\s*\(|"
            r"deallocate\s*\(|open\s*\(|close\s*\(|continue$|cycle\b|exit\b|do\b|end\s*do\b|end\s*if\b|else\b|select\s+case|end\s*select|"
            r"where\s*\(|end\s*where|elsewhere|forall\s*\(|end\s*forall|error\s+stop|nullify\s*\()"
        )
    return _EXEC_RE.match(s.text) is not None and not s.text.lower().startswith(("case", "type is", "class"))


def judge_absent(o, base_lines, i, insert=False):
    if not o.ok:
        return "rejected:" + o.klass(), (o.msg or "")[:300]
    got = [l.strip() for l in text_of(o.tree).split("\n") if l.strip()]
    want = base_lines[:i] + ["INCLUDE 'absent_file.inc'"] + base_lines[(i if insert else i + 1) :]
    if got != want:
        for k, (a, b) in enumerate(zip(got, want)):
            if a != b:
                return "text-differs", "printed line %d is %r, expected %r" % (k + 1, a, b)
        return "text-differs", "printed %d lines, expected %d" % (len(got), len(want))
    from fparser.two.Fortran2003 import Include_Stmt
    from mc.base import walk

    if len(walk(o.tree, Include_Stmt)) != 1:
        return "include-node-count", "%d Include_Stmt nodes" % len(walk(o.tree, Include_Stmt))
    return None, None


def replay(case):
    if case.get("mode") == "absent":
        work = Work()
        try:
            if case["reader"] == "file":
                work.decoys(["absent_file.inc"])
            o = parse_with(work, case["main"], case["reader"], [work.d1], case["std"], case["ic"])
            k, d = judge_absent(o, case["base_lines"], case["i"], insert=bool(case.get("insert")))
        finally:
            work.close()
        return [{"sig": "C13|absent%s:%s|%s" % ("-between-units" if case.get("between") else ("-inserted" if case.get("insert") else ""), k, case["tag"]), "detail": d}] if k else []
    if case.get("mode") == "history":
        from mc.forktree import run_isolated

        out = run_isolated(run_history, case)
        return [{"sig": hist_sig(case, out[0], out[2]), "detail": out[1]}] if out else []
    if case.get("mode") != "resolved":
        return []
    work = Work()
    res = Result()
    try:
        # the reference tree: splice the include files back textually
        def splice(text, depth=0):
            out = []
            for line in text.split("\n"):
                st = line.strip()
                low = st.lower()
                if low.startswith("include"):
                    name = st[7:].strip()[1:-1]
                    out.append(splice(case["files"][name], depth + 1).rstrip("\n"))
                else:
                    out.append(line)
            return "\n".join(out)

        ref_src = splice(case["main"])
        o0 = try_parse(ref_src, case["std"])
        ref = canon(o0.tree)
        check(res, work, case["pid"], case["std"], ref, case["main"], case["files"], "replay", case["feat"], [(case["reader"], case["dirs"], case["ic"])])
    finally:
        work.close()
    return [{"sig": v["sig"], "detail": v["detail"]} for v in res.violations]
