"""Model S - comparing the items a reader delivers with a Layout's
expectations (text modulo blanks outside literals via lexer L, label,
construct name, exact (first,last) span; comments in delivery order)."""
from mc import lexer
from mc.base import FortranStringReader
from fparser.common import readfortran as rf


def read_all(text, **opts):
    """items delivered by iterating a string reader to exhaustion"""
    r = FortranStringReader(text, **opts)
    items = []
    while True:
        it = r.get_item()
        if it is None:
            break
        items.append(it)
    return r, items


def fold_case(tokens):
    from mc.normalise import FOLD

    out = []
    for k, t in tokens:
        if k == "id" and t.lower() in FOLD:
            t = t.lower()
        elif k == "dot":
            t = t.lower()
        elif k == "num":
            # the exponent letter only: a kind suffix (3.E5_wp) is a name
            head, sep, kind = t.partition("_")
            t = head.lower() + sep + kind
        out.append((k, t))
    return out


def describe(it):
    if isinstance(it, rf.Comment):
        return "Comment(%r, %s)" % (it.comment, it.span)
    return "%s(%r, span=%s, label=%r, name=%r)" % (type(it).__name__, it.line, it.span, it.label, it.name)


def check_items(lay, items, ignore_comments, fold=False):
    """returns (kind, detail) of the first discrepancy or (None, None)"""
    lines = [it for it in items if not isinstance(it, rf.Comment)]
    comments = [it for it in items if isinstance(it, rf.Comment) and it.comment.strip()]
    if len(lines) != len(lay.expect):
        return "item-count", "reader delivered %d statements, model expects %d\n  got: %s" % (len(lines), len(lay.expect), "\n       ".join(describe(i) for i in lines[:40]))
    for n, (it, ex) in enumerate(zip(lines, lay.expect)):
        try:
            got = lexer.lex(it.line)
        except lexer.LexError as e:
            return "item-text", "statement %d: %s" % (n + 1, e)
        want = ex.tokens
        if fold == "all":
            got = [(k, t.lower() if k in ("id", "num", "dot") else t) for k, t in got]
            want = [(k, t.lower() if k in ("id", "num", "dot") else t) for k, t in want]
        elif fold:
            got, want = fold_case(got), fold_case(want)
        if got != want:
            return "item-text", "statement %d text: got %r, model %r" % (n + 1, it.line, " ".join(t for _, t in ex.tokens))
        if it.label != ex.label:
            return "item-label", "statement %d (%r): label %r, model %r" % (n + 1, it.line, it.label, ex.label)
        if (it.name or None) != ex.name and not (fold == "all" and it.name and ex.name and it.name.lower() == ex.name.lower()):
            return "item-name", "statement %d (%r): construct name %r, model %r" % (n + 1, it.line, it.name, ex.name)
        if tuple(it.span) != (ex.first, ex.last):
            return "item-span", "statement %d (%r): span %r, model %r" % (n + 1, it.line, tuple(it.span), (ex.first, ex.last))
    if ignore_comments:
        if comments:
            return "comment-not-ignored", describe(comments[0])
        return None, None
    # comments: delivery order = position relative to statements
    want = lay.comments
    if len(comments) != len(want):
        return "comment-count", "reader delivered %d comments, model expects %d: %s" % (len(comments), len(want), [c.comment for c in comments])
    # order check: walk the item stream
    seq = []
    nstmt = 0
    for it in items:
        if isinstance(it, rf.Comment):
            if it.comment.strip():
                seq.append((it.comment.strip(), it.span[0], nstmt))
        else:
            nstmt += 1
    # model: comment attached after statement k (k = index) -> delivered
    # after k+1 statements; free comments: by line position
    model = []
    for text, line, after in want:
        model.append((text.strip(), line, after))
    # sort model into delivery order: statements first/last lines known
    def deliver_pos(c):
        text, line, after = c
        if after is not None:
            return after + 1
        # number of statements whose first line precedes this comment line
        return sum(1 for ex in lay.expect if ex.first < line)

    model_seq = sorted(((deliver_pos(c), c[1], c[0]) for c in model))
    got_seq = [(n, line, text) for (text, line, n) in seq]
    if [(a, c) for a, b, c in got_seq] != [(a, c) for a, b, c in model_seq]:
        return "comment-order", "comments delivered %r, model %r" % (got_seq, model_seq)
    if [b for a, b, c in got_seq] != [b for a, b, c in model_seq]:
        return "comment-span", "comment lines %r, model %r" % (got_seq, model_seq)
    return None, None
