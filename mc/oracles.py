"""Structural oracles shared by several properties."""
from mc.base import Base, walk
from fparser.two.utils import BlockBase


def iter_children(node):
    """direct Base children of node, recursing through nested tuples/lists"""
    stack = [node.children]
    while stack:
        c = stack.pop()
        if isinstance(c, Base):
            yield c
        elif isinstance(c, (list, tuple)):
            stack.extend(reversed(c))


def wellformed(root, limit=5):
    """C10's invariants; returns a list of problem strings (empty = holds)."""
    problems = []

    def bad(msg):
        if len(problems) < limit:
            problems.append(msg)

    if getattr(root, "parent", None) is not None:
        bad("root has a parent: %r" % type(root.parent).__name__)
    seen = {}
    order = []
    stack = [(root, None)]
    while stack:
        node, par = stack.pop()
        if id(node) in seen:
            bad("node %s %r occurs more than once (under %s and %s)" % (type(node).__name__, str(node)[:40], seen[id(node)], type(par).__name__ if par is not None else None))
            continue
        seen[id(node)] = type(par).__name__ if par is not None else None
        order.append(node)
        if par is not None and node.parent is not par:
            bad("parent of %s %r is %s, reached from %s %r" % (type(node).__name__, str(node)[:40], type(node.parent).__name__ if node.parent is not None else None, type(par).__name__, str(par)[:40]))
        kids = list(iter_children(node))
        for k in reversed(kids):
            stack.append((k, node))
    for node in order:
        try:
            r = node.get_root()
        except Exception as e:  # cyclic parent chain etc.
            bad("get_root() raised %r on %s" % (e, type(node).__name__))
            continue
        if r is not root:
            bad("get_root() of %s %r is %s, not the root" % (type(node).__name__, str(node)[:40], type(r).__name__))
            break
    # walk(): every node exactly once, in the same (source) order
    w = [n for n in walk(root) if isinstance(n, Base)]
    ids_w = [id(n) for n in w]
    if len(set(ids_w)) != len(ids_w):
        bad("walk() yields a node more than once")
    if ids_w != [id(n) for n in order]:
        if set(ids_w) != set(id(n) for n in order):
            bad("walk() visits %d nodes, children-traversal reaches %d" % (len(set(ids_w)), len(order)))
        else:
            bad("walk() order differs from children order")
    # statements yielded by walk print in the order of the regenerated source
    stmts = []
    for n in w:
        if isinstance(n, BlockBase):
            continue
        if isinstance(n.parent, BlockBase) and any(n is c for c in n.parent.content):
            # indentation (incl. the blanks that pad a label to the indent)
            # is cosmetic: compare with blank runs collapsed
            t = " ".join(n.tofortran().split())
            if t:
                stmts.append(t)
    lines = [" ".join(l.split()) for l in str(root).split("\n") if l.strip()]
    if stmts != lines:
        for i, (a, b) in enumerate(zip(stmts, lines)):
            if a != b:
                bad("statement %d from walk() prints %r but line %d of str(root) is %r" % (i, a, i, b))
                break
        else:
            bad("walk() yields %d statements, str(root) has %d lines" % (len(stmts), len(lines)))
    return problems
