"""Common plumbing: import fparser from the working tree, parse helpers,
canonical forms, outcome classification, per-case watchdog.

Everything here runs under /venv/bin/python.  fparser is always imported from
$FPARSER_SRC (default /repo/src), never from site-packages, with byte-code
writing disabled, so every check sees /repo's current working tree.
"""
import os
import sys
import re
import signal
import hashlib
import logging
import traceback

FPARSER_SRC = os.environ.get("FPARSER_SRC", "/repo/src")
sys.dont_write_bytecode = True
if sys.path[0] != FPARSER_SRC:
    sys.path.insert(0, FPARSER_SRC)

logging.disable(logging.CRITICAL)

import fparser  # noqa: E402

assert os.path.realpath(fparser.__file__).startswith(
    os.path.realpath(FPARSER_SRC)
), "fparser imported from %s, expected under %s" % (fparser.__file__, FPARSER_SRC)

from fparser.two.parser import ParserFactory  # noqa: E402
from fparser.common.readfortran import (  # noqa: E402
    FortranStringReader,
    FortranFileReader,
)
from fparser.two.symbol_table import SYMBOL_TABLES  # noqa: E402
from fparser.two import utils as two_utils  # noqa: E402
from fparser.two.utils import FortranSyntaxError, Base, walk  # noqa: E402

STDS = ("f2003", "f2008")

_cur = {"std": None, "parser": None}


def parser_for(std):
    """ParserFactory.create mutates the class-level registry, so the parser is
    re-created whenever the standard changes; tables are cleared before every
    parse exactly as the repository's own test fixtures do."""
    if _cur["std"] != std:
        _cur["parser"] = ParserFactory().create(std=std)
        _cur["std"] = std
    else:
        SYMBOL_TABLES.clear()
    return _cur["parser"]


def forget_parser():
    _cur["std"] = None
    _cur["parser"] = None


class CaseTimeout(BaseException):
    pass


def _alarm(signum, frame):
    raise CaseTimeout()


def with_timeout(seconds, fn, *a, **kw):
    old = signal.signal(signal.SIGALRM, _alarm)
    signal.setitimer(signal.ITIMER_REAL, seconds)
    try:
        return fn(*a, **kw)
    finally:
        signal.setitimer(signal.ITIMER_REAL, 0)
        signal.signal(signal.SIGALRM, old)


def parse(src, std="f2008", reader=None, **opts):
    """parse text with a string reader (or a ready-made reader)."""
    p = parser_for(std)
    if reader is None:
        reader = FortranStringReader(src, **opts)
    return p(reader)


_BLOCK_RE = re.compile(r"block:\d+")


def renumber_blocks(text):
    seen = {}

    def sub(m):
        k = m.group(0)
        if k not in seen:
            seen[k] = "block:#%d" % len(seen)
        return seen[k]

    return _BLOCK_RE.sub(sub, text)


def canon(tree):
    """repr of the tree with the synthetic names of unnamed BLOCKs renumbered
    in order of first appearance."""
    return renumber_blocks(repr(tree))


def text_of(tree):
    """str(tree) modulo trailing blank lines / trailing blanks at end."""
    return renumber_blocks(str(tree)).rstrip()


class Outcome:
    """Result of attempting a parse: ok(tree) or exc(class, where, msg)."""

    __slots__ = ("tree", "exc", "exc_type", "where", "msg")

    def __init__(self, tree=None, exc=None):
        self.tree = tree
        self.exc = exc
        self.exc_type = type(exc).__name__ if exc is not None else None
        self.where = None
        self.msg = None
        if exc is not None:
            self.msg = str(exc)
            tb = exc.__traceback__
            frames = traceback.extract_tb(tb)
            chain = []
            for fr in frames:
                if "/fparser/" in fr.filename:
                    chain.append(
                        "%s:%s" % (os.path.basename(fr.filename)[:-3], fr.name)
                    )
            self.where = chain[-1] if chain else "?"
            if self.exc_type == "CaseTimeout":
                # the frame the watchdog happened to interrupt is not part of
                # what was observed (it varies from run to run)
                self.where = "watchdog"

    @property
    def ok(self):
        return self.exc is None

    def klass(self):
        if self.ok:
            return "tree"
        return "%s@%s" % (self.exc_type, self.where)


def try_parse(src, std="f2008", timeout=20.0, reader_factory=None, **opts):
    """Run one parse under a watchdog; every exception (incl. SystemExit and
    the watchdog's CaseTimeout) is caught and classified."""
    try:
        if reader_factory is not None:
            tree = with_timeout(
                timeout, lambda: parse(None, std, reader=reader_factory())
            )
        else:
            tree = with_timeout(timeout, parse, src, std, **opts)
        return Outcome(tree=tree)
    except BaseException as e:  # noqa: B902 - SystemExit is a finding
        if isinstance(e, KeyboardInterrupt):
            raise
        return Outcome(exc=e)


def h64(*parts):
    m = hashlib.blake2b(digest_size=8)
    for p in parts:
        m.update(p.encode("utf-8", "surrogatepass") if isinstance(p, str) else p)
        m.update(b"\0")
    return int.from_bytes(m.digest(), "big")


def sha(text):
    return hashlib.sha1(text.encode("utf-8", "surrogatepass")).hexdigest()[:16]


def mask_digits(s):
    return re.sub(r"\d+", "N", s)


def node_classes(tree):
    """Set of rule-class names that produced a node in this tree."""
    out = set()
    stack = [tree]
    while stack:
        n = stack.pop()
        if isinstance(n, Base):
            out.add(type(n).__name__)
            ch = n.children
            if ch:
                stack.extend(ch)
        elif isinstance(n, (list, tuple)):
            stack.extend(n)
    return out


def all_rule_classes():
    """Names of all fparser2 rule classes that define a match()."""
    from fparser.two import Fortran2003, Fortran2008, C99Preprocessor
    import inspect

    names = set()
    for mod in (Fortran2003, Fortran2008, C99Preprocessor):
        for n, c in vars(mod).items():
            if inspect.isclass(c) and issubclass(c, Base) and hasattr(c, "match"):
                if n.endswith("Base") or n == "Base":
                    continue
                names.add(n)
    return names


def first_diff(a, b, ctx=70):
    """short description of the first difference between two strings"""
    n = min(len(a), len(b))
    i = 0
    while i < n and a[i] == b[i]:
        i += 1
    lo = max(0, i - ctx)
    return "first difference at %d:\n  A: ...%s\n  B: ...%s" % (i, a[lo : i + ctx], b[lo : i + ctx])


_NAME_RE = re.compile(r"(\w*Name)\('([^']*)'\)")


def canon_fold_names(c):
    """canonical tree text with the spelling of names case-folded (used only
    when a layout changed keyword case: intrinsic / keyword-argument names
    written in another case are the same names)"""
    c = _NAME_RE.sub(lambda m: "%s('%s')" % (m.group(1), m.group(2).lower()), c)
    # the kind parameter of a literal constant (2_ik) is a name held as a plain string
    return re.sub(r"""(_Constant\((?:'[^']*'|"[^"]*"), ')(\w+)(')""", lambda m: m.group(1) + m.group(2).lower() + m.group(3), c)
