"""Model G, layer E: a fixed corpus of composite programs, written as plain
free-form text (one statement per line, no continuations/comments) and
converted to statement lists with structural roles by from_text().  The
role classifier below is part of the model: it is only ever applied to the
corpus texts in this file (asserted balanced), never to fparser output.
"""
import re
from mc.grammar import S

_OPEN = re.compile(
    r"""^(?:
      (?:(?:recursive|pure|elemental|impure|module|integer|real|logical|complex|character|double\s+precision|type\s*\(\w+\))(?:\s*\([^)]*\))?\s+)*(?:subroutine|function)\b
    | program\b | module\s+(?!procedure)\w+\s*$ | submodule\b | block\s*data\b
    | interface\b | abstract\s+interface\b
    | type\s*(?:,[^:]*)?(?:::)?\s*\w+\s*(?:\([^)]*\))?$ | type\s+\w+$
    | enum\b
    | if\s*\(.*\)\s*then$ | do\b | select\s*(?:case|type)\b
    | where\s*\([^)]*\)$ | forall\s*\([^)]*\)$ | associate\s*\( | block$ | critical$
    )""",
    re.I | re.X,
)
_CLOSE = re.compile(r"^end\b|^end(?:if|do|select|where|forall|program|module|subroutine|function|type|interface|associate|block|critical|enum)\b", re.I)
_MID = re.compile(r"^(?:else\b|elseif\b|elsewhere\b|case\b|contains$|type\s+is\b|class\s+is\b|class\s+default\b)", re.I)


def from_text(src, std="f2003"):
    prog = []
    stack = []  # labels of open labelled DOs
    for raw in src.strip("\n").split("\n"):
        line = raw.strip()
        if not line:
            continue
        label = None
        m = re.match(r"(\d+)\s+(.*)$", line)
        if m:
            label, line = m.group(1), m.group(2)
        name = None
        m = re.match(r"(\w+)\s*:\s*(?!:)(.*)$", line)
        if m and not re.match(r"(?i)(use|import|case|type is|class is)\b", line):
            name, line = m.group(1), m.group(2)
        role = "simple"
        kind = re.match(r"[A-Za-z_]*", line).group(0).lower() or "stmt"
        sstd = "f2008" if re.match(r"(?i)(block$|critical$|end block$|end critical$|submodule|do concurrent|error stop)", line) else std
        mdo = re.match(r"(?i)do\s+(\d+)\b", line)
        if stack and label is not None and stack[-1] == label:
            # terminator of a labelled DO (shared termination closes several)
            n = 0
            while stack and stack[-1] == label:
                stack.pop()
                n += 1
            for i in range(n - 1):
                # virtual closers for the outer loops sharing the label
                pass
            prog.append(S(line, "do_term", "close", label=label, name=name, std=sstd, tags=("shared%d" % n,) if n > 1 else ()))
            continue
        if mdo:
            stack.append(mdo.group(1))
            role = "open"
            kind = "do_label"
        elif _CLOSE.match(line):
            role = "close"
            kind = "end_" + (re.sub(r"(?i)^end\s*", "", line).split() or ["unit"])[0].lower()
        elif _MID.match(line):
            role = "mid"
        elif _OPEN.match(line) and not re.match(r"(?i)(type\s*\(|module\s+procedure|where\s*\(.*\)\s*\S+\s*=|forall\s*\(.*\)\s*\S+.*=)", line):
            role = "open"
        prog.append(S(line, kind, role, label=label, name=name, std=sstd))
    return prog


def balanced(prog):
    d = 0
    for s in prog:
        if s.role == "open":
            d += 1
        elif s.role == "close":
            n = 1
            for t in s.tags:
                if t.startswith("shared"):
                    n = int(t[6:])
            d -= n
        if d < 0:
            return False
    return d == 0


P1 = """
program p
use m
implicit none
integer :: i, a(10)
real :: x
character(len=5) :: s = 'ab''c'
nm: do i = 1, 10
if (a(i) > 0) then
x = x + a(i)**2 * 1.0e-3
else if (i == 3) then
cycle nm
else
write(*, '(a, i3)') "v", i
end if
end do nm
select case (i)
case (1:2)
call foo(x, y=s)
case default
stop 'x'
end select
do 10 i = 1, 3
a(i) = 0
10 continue
contains
function f(z) result(r)
real, intent(in) :: z
real :: r
r = z
end function f
end program p
"""

P3 = """
module m
type :: t
integer :: c
end type t
interface
subroutine ext(a)
integer :: a
end subroutine ext
end interface
contains
subroutine s(a)
integer :: a
real :: w(3)
outer: do i = 1, 10
if (a > 0) then
a = a - 1
else
a = 0
end if
select case (a)
case (1)
a = 2
end select
where (w > 0)
w = 1
elsewhere
w = 2
end where
forall (j = 1:3)
w(j) = j
end forall
associate (z => a)
z = 1
end associate
blk: block
integer :: q
q = 1
end block blk
critical
a = 1
end critical
do 10 j = 1, 3
w(j) = 0
10 continue
do while (a > 0)
a = a - 1
end do
end do outer
end subroutine s
function f(x)
real :: x
f = x
end function f
end module m
"""

P4 = """
module m
use m2
implicit none
integer :: i, j
type :: t
integer :: c
end type t
interface
subroutine ext(a)
integer :: a
end subroutine ext
end interface
contains
subroutine s(a)
integer :: a
real :: w(3)
outer: do i = 1, 10
if (a > 0) then
a = a - 1
else if (a < 0) then
a = 2
else
a = 0
end if
select case (a)
case (1)
a = 2
case default
a = 3
end select
where (w > 0)
w = 1
elsewhere
w = 2
end where
do 10 j = 1, 3
w(j) = 0
10 continue
do 20 j = 1, 3
20 w(j) = 0
end do outer
end subroutine s
function f(x)
real :: x
f = x
end function f
end module m
program q
call s(1)
end program q
"""

P5 = """
subroutine io(u, n)
integer, intent(in) :: u, n
character(len=20) :: str = 'it''s a "test" ! not & a ; comment'
real(kind=8), dimension(:), allocatable :: buf
100 format (1x, a, i5, 2(f8.3, 1x), 'it''s')
allocate(buf(n), stat=ierr)
if (ierr /= 0) stop 'alloc'
open(unit=u, file='data.txt', status='old', iostat=ios, err=900)
read(u, *, end=800, err=900) (buf(k), k = 1, n)
write(*, 100) "sum", n, buf(1), buf(n)
write(unit=*, fmt='(a)') str // "x" // 'y'
800 close(u)
goto 999
900 print *, 'error: ', ios
999 continue
deallocate(buf)
return
end subroutine io
"""

P6 = """
function g(x, y) result(z)
real, intent(in) :: x, y(:)
real :: z
logical :: ok
complex :: c = (1.0, -2.5e-1)
ok = x > 0.0 .and. .not. (y(1) <= 1.0e-3 .or. x == 2.5d+4) .eqv. .true.
z = -x ** 2 ** 0.5 + y(1) * (x - 1.0) / max(x, 1.0, 3.e5)
if (ok) z = z + sum(y(1:size(y):2))
z = merge(z, 0.0, ok) + real(int(x), kind=8)
lbl: select case (int(z))
case (:0) lbl
z = 0
case (1, 3:5) lbl
z = 1
case default lbl
z = 2
end select lbl
end function g
"""

P7 = """
module shapes
implicit none
private
public :: shape, area
type, abstract :: shape
real :: scale = 1.0
contains
procedure(area_if), deferred :: area
procedure :: describe
generic :: operator(+) => add
procedure, private :: add
final :: cleanup
end type shape
type, extends(shape) :: circle
real :: r
end type circle
abstract interface
real function area_if(self)
import :: shape
class(shape), intent(in) :: self
end function area_if
end interface
interface area
module procedure area_c
end interface area
enum, bind(c)
enumerator :: red = 1, green
enumerator blue
end enum
contains
real function area_c(c)
type(circle), intent(in) :: c
area_c = 3.14159 * c%r ** 2 * c%scale
end function area_c
subroutine describe(self)
class(shape), intent(in) :: self
select type (self)
type is (circle)
print *, 'circle', self%r
class default
print *, 'shape'
end select
end subroutine describe
end module shapes
"""

P8 = """
block data bd
common /cb/ a, b
integer :: a, b
data a, b /1, 2/
end block data bd
subroutine shared(n, a)
integer :: n, i, j
real :: a(n, n)
do 10 i = 1, n
do 10 j = 1, n
a(i, j) = 0.0
10 continue
do 20 i = 1, n
if (a(i, 1) > 0) goto 20
a(i, 1) = 1.0
20 continue
do 30 i = 1, n
30 a(i, i) = 1.0
end subroutine shared
"""

P9_08 = """
submodule (shapes) impl
contains
subroutine work(n)
integer :: n
integer, allocatable :: ws(:)
do concurrent (i = 1:n)
a(i) = i
end do
b1: block
integer :: t
t = n
t = t + 1
print *, t
critical
n = t + 1
end critical
end block b1
if (n < 0) error stop 'neg'
allocate(ws, mold=a)
open(newunit=u, file='x')
end subroutine work
end submodule impl
"""

P10 = """
subroutine lab(n)
integer :: n, i
character(len=8) :: msg
10 format (i3)
i = 0
20 i = i + 1
if (i < n) goto 20
msg = 'a!b''c'
30 continue
write(*, 10) i
100 print *, msg
end subroutine lab
"""

P11 = """
module Mixed_Mod
implicit none
integer :: nVal
contains
subroutine Sub_A(x)
real :: x
x = x + 1.0
call Inner_P(x)
contains
subroutine Inner_P(y)
real :: y
y = 2.0 * y
end subroutine Inner_P
end subroutine Sub_A
integer function Fn_B(k)
integer :: k
Fn_B = k + nVal
end function Fn_B
end module Mixed_Mod
"""

CORPUS_TEXT = {"R1": P11, "P1": P1, "P3": P3, "P4": P4, "P5": P5, "P6": P6, "P7": P7, "P8": P8, "P9": P9_08, "Q1": P10}
_cache = {}


A1_BODY = """
integer :: i
real :: x(3)
do i = 1, 3
x(i) = i * 2.0
end do
print *, 'sum', sum(x)
"""


def corpus():
    """name -> statement list"""
    if not _cache:
        for k, v in CORPUS_TEXT.items():
            prog = from_text(v)
            assert balanced(prog), k
            _cache[k] = prog
        # A1: a main program WITHOUT a PROGRAM statement (virtual opener, rendered as nothing)
        a1 = [S("", "program_anon", "open")] + from_text(A1_BODY) + [S("end", "end_program", "close")]
        assert balanced(a1)
        _cache["A1"] = a1
    return dict(_cache)


def depths(prog):
    """depth per statement, tolerant of shared DO termination"""
    d = 0
    out = []
    for s in prog:
        if s.role == "close":
            n = 1
            for t in s.tags:
                if t.startswith("shared"):
                    n = int(t[6:])
            d -= n
            out.append(d)
        elif s.role == "mid":
            out.append(max(d - 1, 0))
        elif s.role == "open":
            out.append(d)
            d += 1
        else:
            out.append(d)
    return out


def render(prog, indent=2):
    ds = depths(prog)
    return "\n".join(" " * (1 + indent * d) + s.line() for s, d in zip(prog, ds)) + "\n"
