"""Model G - the generated valid class: statements with structure, contexts,
constructs, program units, corpus.  A program is a list of S (statements in
source order) whose structural role (open/mid/close/simple) is known by
construction; text never carries its own label or construct name - these are
separate fields, so the layout model can place them.
"""
import re
from mc.template import instantiate
from mc import grammar_stmts


class S:
    """One statement.  role: 'open' | 'mid' | 'close' | 'simple'."""

    __slots__ = ("text", "label", "name", "kind", "role", "std", "tags")

    def __init__(self, text, kind="stmt", role="simple", label=None, name=None, std="f2003", tags=()):
        self.text = text
        self.kind = kind
        self.role = role
        self.label = label
        self.name = name
        self.std = std
        self.tags = frozenset(tags)

    def copy(self, **kw):
        s = S(self.text, self.kind, self.role, self.label, self.name, self.std, self.tags)
        for k, v in kw.items():
            setattr(s, k, v)
        return s

    def line(self):
        """canonical one-line free-form rendering (no indentation)."""
        out = ""
        if self.label:
            out += self.label + " "
        if self.name:
            out += self.name + ": "
        return out + self.text

    def __repr__(self):
        return "S(%r)" % self.line()


def opener(text, kind, **kw):
    return S(text, kind, "open", **kw)


def closer(text, kind, **kw):
    return S(text, kind, "close", **kw)


def mid(text, kind, **kw):
    return S(text, kind, "mid", **kw)


def depths(prog):
    """nesting depth of every statement (opener at depth d, body at d+1); a
    closer tagged 'sharedN' terminates N labelled DO loops at once"""
    d = 0
    out = []
    for s in prog:
        if s.role == "close":
            n = 1
            for t in s.tags:
                if t.startswith("shared"):
                    n = int(t[6:])
            d -= n
            out.append(d)
        elif s.role == "mid":
            out.append(d - 1)
        elif s.role == "open":
            out.append(d)
            d += 1
        else:
            out.append(d)
    assert d == 0, "unbalanced program model"
    return out


def prog_std(prog):
    return "f2008" if any(s.std == "f2008" or s.std == "f2008x" for s in prog) else "f2003"


def stds_for(prog):
    return ("f2008",) if prog_std(prog) == "f2008" else ("f2003", "f2008")


# ---------------------------------------------------------------- contexts


def stmts_from_template(text, ch, kind, std):
    """A template may expand to several statements separated by ';;'."""
    full = instantiate(text, ch, kind)
    out = []
    parts = [p.strip() for p in full.split(";;") if p.strip()]
    for i, p in enumerate(parts):
        m = re.match(r"(\d+)\s+(.*)$", p)
        label = None
        if m:
            label, p = m.group(1), m.group(2)
        role = "simple"
        if len(parts) > 1:
            role = "open" if i == 0 else ("close" if i == len(parts) - 1 else "simple")
        out.append(S(p, kind, role, label=label, std=std))
    return out


def sub_wrap(spec=(), execs=(), name="sub", args="(a, b)"):
    return (
        [opener("subroutine %s%s" % (name, args), "subroutine")]
        + list(spec)
        + list(execs)
        + [closer("end subroutine %s" % name, "end_subroutine")]
    )


def in_context(stmts, ctx):
    stmts = list(stmts)
    if ctx == "spec":
        return sub_wrap(spec=stmts)
    if ctx == "exec":
        return sub_wrap(execs=stmts)
    if ctx == "execdo":
        return sub_wrap(
            execs=[opener("do i = 1, n", "do")] + stmts + [closer("end do", "end_do")]
        )
    if ctx == "mod":
        return (
            [opener("module m", "module")]
            + stmts
            + [closer("end module m", "end_module")]
        )
    if ctx == "ibody":
        return sub_wrap(
            spec=[
                opener("interface", "interface"),
                opener("subroutine ext(a)", "subroutine"),
            ]
            + stmts
            + [
                closer("end subroutine ext", "end_subroutine"),
                closer("end interface", "end_interface"),
            ]
        )
    if ctx.startswith("unit:"):
        end = ctx[5:]
        for s_ in stmts:
            s_.role = "open"
        return stmts + [S("integer :: v", "decl")] + ([S("v = 1", "assign")] if not stmts[0].text.lower().lstrip().startswith(("module", "block data")) else []) + [closer(end, "end_unit")]
    raise ValueError(ctx)


def templates(include_never=False):
    out = []
    for lst, default_kind in ((grammar_stmts.SPEC, "spec"), (grammar_stmts.EXEC, "exec"), (grammar_stmts.UNITS, "unit")):
        for i, (text, ctx, std) in enumerate(lst):
            if std == "never" and not include_never:
                continue
            # ids are derived from the template text so that they stay stable
            # when templates are added (they appear in violation signatures)
            import hashlib

            out.append(("%s%s" % (default_kind[0].upper(), hashlib.sha1(text.encode()).hexdigest()[:5]), text, ctx, std))
    return out


def template_scenario(tid, text, ctx, std):
    """E1 scenario: one template in its minimal legal context."""
    s_std = std if std in ("f2008", "f2008x") else "f2003"

    def scenario(ch):
        stmts = stmts_from_template(text, ch, tid, s_std)
        for s in stmts:
            s.tags = frozenset(["probe"])
            if SEED:
                s.text = respell(s.text, SEED)
        return in_context(stmts, ctx)

    return scenario


import os as _os

SEED = int(_os.environ.get("VERIF_SEED", "0") or 0)


def respell(text, seed):
    """VERIF_SEED rotates the SPELLING of user names (never the shapes that
    are enumerated): the (seed mod len)-th letter of every user identifier is
    written in upper case.  Keywords, intrinsic names, FORMAT/IMPLICIT
    statements and BOZ / kind prefixes are left alone."""
    from mc import lexer
    from mc.normalise import FOLD

    low = text.lower().lstrip()
    if low.startswith(("format", "implicit")) or re.match(r"\d+\s+format", low):
        return text
    try:
        toks = lexer.lex(text)
    except lexer.LexError:
        return text
    out = []
    pos = 0
    for i, (k, t) in enumerate(toks):
        j = text.index(t, pos)
        out.append(text[pos:j])
        pos = j + len(t)
        if k == "id" and t.lower() not in FOLD and len(t) > 1 and not (i + 1 < len(toks) and toks[i + 1][0] == "str" and (t.endswith("_") or t.lower() in ("b", "o", "z"))):
            letters = [n for n, c in enumerate(t) if c.isalpha()]
            if letters:
                n = letters[seed % len(letters)]
                t = t[:n] + t[n].upper() + t[n + 1 :]
        out.append(t)
    out.append(text[pos:])
    return "".join(out)


# ---------------------------------------------------------- exec constructs

PROBE = "a = a + 1"


def _nm(uid, ch, allow=True):
    """optional construct name as a deviation."""
    if allow and ch.flag("cname"):
        return "nm%d" % uid
    return None


def _olab(uid, ch):
    """optional statement label on a construct's opening statement"""
    return str(300 + uid) if ch.flag("open_label") else None


def c_if(body, ch, uid):
    nm = _nm(uid, ch)
    out = [opener("if (a > %d) then" % uid, "if_then", name=nm, label=_olab(uid, ch))] + body
    v = ch.choose(4, "if_arms")
    endname = " " + nm if nm and not ch.flag("noendname") else ""
    if v in (1, 3):
        out += [mid("else if (a < 0) then" + endname, "else_if"), S("a = %d" % uid)]
    if v in (2, 3):
        out += [mid("else" + endname, "else"), S("a = -%d" % uid)]
    out.append(closer(ch.pick(["end if", "endif"], "endif") + (" " + nm if nm else ""), "end_if"))
    return out


def c_do(body, ch, uid):
    nm = _nm(uid, ch)
    ctl = ch.pick(["i%d = 1, n" % uid, "", "while (a > 0)", ", i%d = 1, n, 2" % uid, ", while (a > 0)"], "do_ctl")
    out = [opener(("do " + ctl).strip(), "do", name=nm, label=_olab(uid, ch))] + body
    out.append(closer(ch.pick(["end do", "enddo"], "enddo") + (" " + nm if nm else ""), "end_do"))
    return out


def c_do_concurrent(body, ch, uid):
    nm = _nm(uid, ch)
    ctl = ch.pick(["(i%d = 1:n)" % uid, "(i%d = 1:n, j = 1:m, i%d /= j)" % (uid, uid)], "dc_ctl")
    return (
        [opener("do concurrent " + ctl, "do_concurrent", name=nm, std="f2008")]
        + body
        + [closer("end do" + (" " + nm if nm else ""), "end_do")]
    )


def c_do_label_enddo(body, ch, uid):
    nm = _nm(uid, ch)
    lab = str(100 + uid)
    comma = "," if ch.flag("do_comma") else ""
    return (
        [opener("do %s%s i%d = 1, n" % (lab, comma, uid), "do_label", name=nm)]
        + body
        + [closer("end do" + (" " + nm if nm else ""), "end_do", label=lab)]
    )


def c_do_label_continue(body, ch, uid):
    lab = str(100 + uid)
    return (
        [opener("do %s i%d = 1, n" % (lab, uid), "do_label")]
        + body
        + [closer("continue", "continue_term", label=lab)]
    )


def _term_action(ch, var, uid):
    """the action statement that terminates a non-block DO (R829 allows any
    action statement but GOTO, RETURN, STOP, EXIT, CYCLE, END ..., arithmetic IF)"""
    return ch.pick(
        [
            "b(%s) = %d" % (var, uid),
            "if (a > %d) b(%s) = %d" % (uid, var, uid),
            "call sub%d(%s)" % (uid, var),
            "print *, %s" % var,
            "where (w > %d) w = %d" % (uid, uid),
        ],
        "term_action",
    )


def c_do_label_action(body, ch, uid):
    lab = str(100 + uid)
    return (
        [opener("do %s i%d = 1, n" % (lab, uid), "do_label")]
        + body
        + [closer(_term_action(ch, "i%d" % uid, uid), "action_term", label=lab)]
    )


def c_select(body, ch, uid):
    nm = _nm(uid, ch)
    sel = ch.pick(["(1)", "(1:2)", "(:0)", "(3:)", "(1, 3:4, 7)", "('a')"], "case_sel")
    out = [opener("select case (k%d)" % uid, "select_case", name=nm, label=_olab(uid, ch))]
    out += [mid("case " + sel + (" " + nm if nm and ch.flag("casename") else ""), "case")] + body
    if ch.flag("case_default"):
        out += [mid("case default", "case_default"), S("a = %d" % uid)]
    out.append(closer(ch.pick(["end select", "endselect"], "endsel") + (" " + nm if nm else ""), "end_select"))
    return out


def c_select_type(body, ch, uid):
    nm = _nm(uid, ch)
    sel = ch.pick(["(v)", "(z => v)"], "seltype")
    out = [opener("select type " + sel, "select_type", name=nm)]
    out += [mid(ch.pick(["type is (t1)", "class is (t1)", "type is (integer)", "type is (character(len=*))"], "guard"), "type_guard")] + body
    if ch.flag("class_default"):
        out += [mid("class default", "class_default"), S("a = %d" % uid)]
    out.append(closer("end select" + (" " + nm if nm else ""), "end_select_type"))
    return out


def c_where(body, ch, uid):
    nm = _nm(uid, ch)
    out = [opener("where (w > %d)" % uid, "where", name=nm)] + body
    v = ch.choose(4, "where_arms")
    if v in (1, 3):
        out += [mid("elsewhere (w < 0)" + (" " + nm if nm else ""), "masked_elsewhere"), S("w = %d" % uid)]
    if v in (2, 3):
        out += [mid(ch.pick(["elsewhere", "else where"], "elsew"), "elsewhere"), S("w = -%d" % uid)]
    out.append(closer(ch.pick(["end where", "endwhere"], "endwhere") + (" " + nm if nm else ""), "end_where"))
    return out


def c_forall(body, ch, uid):
    nm = _nm(uid, ch)
    hdr = ch.pick(["(i%d = 1:n)" % uid, "(i%d = 1:n, j = 1:m, a(j) > 0)" % uid], "forall_hdr")
    return (
        [opener("forall " + hdr, "forall", name=nm)]
        + body
        + [closer(ch.pick(["end forall", "endforall"], "endforall") + (" " + nm if nm else ""), "end_forall")]
    )


def c_associate(body, ch, uid):
    nm = _nm(uid, ch)
    assoc = ch.pick(["(z%d => a)" % uid, "(z%d => a + 1, y => b%%c(2))" % uid], "assoc")
    return (
        [opener("associate " + assoc, "associate", name=nm)]
        + body
        + [closer("end associate" + (" " + nm if nm else ""), "end_associate")]
    )


def c_block(body, ch, uid):
    nm = _nm(uid, ch)
    decl = [S("integer :: q%d" % uid, "decl")] if ch.flag("block_decl") else []
    return (
        [opener("block", "block", name=nm, std="f2008")]
        + decl
        + body
        + [closer("end block" + (" " + nm if nm else ""), "end_block")]
    )


def c_critical(body, ch, uid):
    nm = _nm(uid, ch)
    return (
        [opener("critical", "critical", name=nm, std="f2008")]
        + body
        + [closer("end critical" + (" " + nm if nm else ""), "end_critical")]
    )


def c_do_shared_continue(body, ch, uid):
    lab = str(100 + uid)
    return (
        [opener("do %s i%d = 1, n" % (lab, uid), "do_label"), opener("do %s j%d = 1, m" % (lab, uid), "do_label")]
        + body
        + [closer("continue", "continue_term", label=lab, tags=("shared2",))]
    )


def c_do_shared_action(body, ch, uid):
    lab = str(100 + uid)
    return (
        [opener("do %s i%d = 1, n" % (lab, uid), "do_label"), opener("do %s j%d = 1, m" % (lab, uid), "do_label")]
        + body
        + [closer(_term_action(ch, "j%d" % uid, uid), "action_term", label=lab, tags=("shared2",))]
    )


EXEC_CONSTRUCTS = [
    ("if", c_if),
    ("do", c_do),
    ("do_label_enddo", c_do_label_enddo),
    ("do_label_continue", c_do_label_continue),
    ("do_label_action", c_do_label_action),
    ("select", c_select),
    ("select_type", c_select_type),
    ("where", c_where),
    ("forall", c_forall),
    ("associate", c_associate),
    ("block", c_block),
    ("critical", c_critical),
    ("do_concurrent", c_do_concurrent),
    ("do_shared_continue", c_do_shared_continue),
    ("do_shared_action", c_do_shared_action),
]
EXEC_BY_NAME = dict(EXEC_CONSTRUCTS)

# which construct kinds may appear directly in the body of which
_ONLY_IN = {"where": {"where"}, "forall": {"forall", "where"}}


def may_nest(outer, inner):
    allowed = _ONLY_IN.get(outer)
    return allowed is None or inner in allowed


def body_probe(kind, uid):
    if kind in ("where",):
        return S("w = w + %d" % uid, "assign", tags=("probe",))
    if kind in ("forall",):
        return S("a(i%d) = %d" % (uid, uid), "assign", tags=("probe",))
    return S("a = a + %d" % uid, "assign", tags=("probe",))


def nest(kinds, ch, siblings=True):
    """Nest the constructs in `kinds` (outermost first); innermost body is a
    probe statement; after every closed inner construct there is a sibling
    statement in the outer body."""

    def build(i):
        kind = kinds[i]
        uid = i + 1
        if i + 1 < len(kinds):
            inner = build(i + 1)
            body = inner + ([body_probe(kind, uid)] if siblings else [])
        else:
            body = [body_probe(kind, uid)]
        return EXEC_BY_NAME[kind](body, ch, uid)

    return build(0)


def valid_nest(kinds):
    return all(may_nest(kinds[i], kinds[i + 1]) for i in range(len(kinds) - 1))


# ----------------------------------------------------------- spec constructs


def c_type_def(ch, uid=1):
    attrs = ch.pick(["", " ::", ", public ::", ", abstract ::", ", bind(c) ::", ", extends(base) ::", ", private, extends(base) ::"], "type_attr")
    params = ""
    out = []
    tname = "t%d" % uid
    if ch.flag("type_params"):
        params = "(k, l)"
        out += [S("integer, kind :: k = 4", "type_param_def"), S("integer, len :: l", "type_param_def")]
    head = opener("type%s %s%s" % (attrs, tname, params), "type")
    if ch.flag("type_private"):
        out.append(S("private", "private"))
    if ch.flag("type_sequence"):
        out.append(S("sequence", "sequence"))
    comps = ch.choose(4, "comps")
    out.append(S("integer :: c1", "comp"))
    if comps >= 1:
        out.append(S(ch.pick(["real, dimension(:), allocatable :: c2", "real, pointer :: c2(:) => null()", "character(len=10) :: c2 = 'ab'", "type(%s), pointer :: nxt" % tname, "integer, public :: c2(3)", "real :: c2(2, 2), c3 = 1.0"], "comp2"), "comp"))
    if comps >= 2:
        out.append(S(ch.pick(["procedure(iface), pointer, nopass :: pc => null()", "procedure(iface), pointer, pass(self) :: pc", "procedure(), pointer, nopass :: pc", "procedure(real), pointer, nopass, public :: pc"], "pcomp"), "proc_comp"))
    if comps >= 3:
        out.append(S("class(*), allocatable :: any", "comp"))
    if ch.flag("type_bound"):
        out.append(mid("contains", "contains"))
        if ch.flag("tb_private"):
            out.append(S("private", "private"))
        out.append(S(ch.pick(["procedure :: m1", "procedure, pass(self) :: m1 => impl1", "procedure, nopass, public :: m1", "procedure(iface), deferred :: m1", "procedure, non_overridable :: m1", "procedure m1"], "tbp"), "specific_binding"))
        tb = ch.choose(3, "tb_more")
        if tb >= 1:
            out.append(S(ch.pick(["generic :: g => m1", "generic, public :: operator(+) => m1", "generic :: assignment(=) => m1", "generic :: write(formatted) => m1", "generic :: operator(.dot.) => m1, m2"], "generic"), "generic_binding"))
        if tb >= 2:
            out.append(S(ch.pick(["final :: fin", "final fin, fin2"], "final"), "final_binding"))
    endt = closer(ch.pick(["end type %s" % tname, "end type", "endtype %s" % tname], "endtype"), "end_type")
    return [head] + out + [endt]


def c_interface(ch, uid=1):
    v = ch.choose(7, "iface_kind")
    head, tail = [
        ("interface", "end interface"),
        ("interface gen", "end interface gen"),
        ("interface operator(+)", "end interface operator(+)"),
        ("interface assignment(=)", "end interface assignment(=)"),
        ("abstract interface", "end interface"),
        ("interface operator(.dot.)", "end interface"),
        ("interface write(formatted)", "end interface"),
    ][v]
    out = [opener(head, "interface")]
    b = ch.choose(4, "iface_body")
    if b in (0, 3):
        out += [
            opener("subroutine ext%d(a)" % uid, "subroutine"),
            S("integer :: a", "decl"),
            closer("end subroutine ext%d" % uid, "end_subroutine"),
        ]
    if b in (1, 3):
        out += [
            opener(ch.pick(["function fx%d(x)", "real function fx%d(x)", "pure function fx%d(x) result(r)", "function fx%d(x) bind(c)"], "ifun") % uid, "function"),
            S("real :: x", "decl"),
            closer(ch.pick(["end function fx%d" % uid, "end function", "end"], "endifun"), "end_function"),
        ]
    if b == 2 or (b == 3 and v in (1, 2, 3, 5)):
        if v in (1, 2, 3, 5, 6) or b == 2:
            mp = ch.pick(["module procedure mp1", "module procedure mp1, mp2", "procedure mp1", "module procedure :: mp1"], "modproc")
            # 'procedure' without MODULE and the '::' form are F2008 (R1206);
            # the f2003 parser's answer for them is not constrained
            out.append(S(mp, "procedure_stmt", std="f2008x" if (mp.startswith("procedure") or "::" in mp) else "f2003"))
    out.append(closer(tail, "end_interface"))
    return out


def c_enum(ch, uid=1):
    out = [opener("enum, bind(c)", "enum")]
    out.append(S(ch.pick(["enumerator :: red%d = 1, green%d" % (uid, uid), "enumerator red%d" % uid, "enumerator :: red%d" % uid], "enumr"), "enumerator"))
    if ch.flag("enum2"):
        out.append(S("enumerator blue%d = 4" % uid, "enumerator"))
    out.append(closer("end enum", "end_enum"))
    return out


def c_type_tbp(ch, uid=1):
    """derived type with a type-bound procedure part (choice points reach the
    binding details with one deviation)"""
    tname = "tb%d" % uid
    out = [opener("type :: %s" % tname, "type"), S("integer :: c1", "comp")]
    out.append(S(ch.pick(["procedure(iface), pointer, nopass :: pc => null()", "procedure(iface), pointer, pass(self) :: pc", "procedure(), pointer, nopass :: pc", "real :: c2 = 1.0", "type(%s), pointer :: nxt => null()" % tname], "pcomp"), "proc_comp"))
    out.append(mid("contains", "contains"))
    if ch.flag("tb_private"):
        out.append(S("private", "private"))
    out.append(S(ch.pick(["procedure :: m1", "procedure, pass(self) :: m1 => impl1", "procedure, nopass, public :: m1", "procedure(iface), deferred :: m1", "procedure, non_overridable :: m1", "procedure m1", "procedure, pass, private :: m1"], "tbp"), "specific_binding"))
    out.append(S(ch.pick(["generic :: g => m1", "generic, public :: operator(+) => m1", "generic :: assignment(=) => m1", "generic :: write(formatted) => m1", "generic :: operator(.dot.) => m1, m2", "generic, private :: g => m1, m2"], "generic"), "generic_binding"))
    out.append(S(ch.pick(["final :: fin", "final fin, fin2", "final :: fin, fin2"], "final"), "final_binding"))
    out.append(closer(ch.pick(["end type %s" % tname, "end type"], "endtype"), "end_type"))
    return out


SPEC_CONSTRUCTS = [("type", c_type_def), ("interface", c_interface), ("enum", c_enum), ("type_tbp", c_type_tbp)]


# ------------------------------------------------------------ program units


def u_program(spec, execs, ch, name="p", contains=()):
    out = []
    stmt = not ch.flag("no_program_stmt")
    if stmt:
        out.append(opener("program %s" % name, "program"))
    else:
        # anonymous main program: the model gives it a virtual opener so that
        # nesting stays balanced; it is rendered as nothing
        out.append(opener("", "program_anon"))
    out += list(spec) + list(execs)
    if contains:
        out.append(mid("contains", "contains"))
        out += list(contains)
    if stmt:
        out.append(closer(ch.pick(["end program %s" % name, "end program", "end", "endprogram %s" % name], "endprog"), "end_program"))
    else:
        out.append(closer(ch.pick(["end", "end program"], "endprog"), "end_program"))
    return out


def u_module(spec, ch, name="m", contains=()):
    out = [opener("module %s" % name, "module")] + list(spec)
    if contains or ch.flag("empty_contains"):
        out.append(mid("contains", "contains"))
        out += list(contains)
    out.append(closer(ch.pick(["end module %s" % name, "end module", "end", "endmodule %s" % name], "endmod"), "end_module"))
    return out


def u_submodule(spec, ch, name="sm", contains=()):
    parent = ch.pick(["(m)", "(m:sm0)"], "smparent")
    out = [opener("submodule %s %s" % (parent, name), "submodule", std="f2008")] + list(spec)
    if contains:
        out.append(mid("contains", "contains"))
        out += list(contains)
    out.append(closer(ch.pick(["end submodule %s" % name, "end submodule", "end"], "endsm"), "end_submodule"))
    return out


def u_subroutine(spec, execs, ch, name="s", contains=(), internal=False):
    prefix = ch.pick(["", "recursive ", "pure ", "elemental ", "impure elemental ", "module "], "sprefix")
    # MODULE / IMPURE prefixes: F2008, but the f2003 parser accepts them too
    # (shared Prefix_Spec); C17's list of F2008-only constructs does not
    # name them, so the model leaves f2003's answer unconstrained ('f2008x')
    std = {"impure elemental ": "f2008x", "module ": "f2008x"}.get(prefix, "f2003")
    args = ch.pick(["(x, y)", "", "()", "(x, *)"], "sargs")
    suffix = ch.pick(["", " bind(c)", " bind(c, name='cs')"], "ssuffix") if args else ""
    out = [opener("%ssubroutine %s%s%s" % (prefix, name, args, suffix), "subroutine", std=std)]
    out += list(spec) + list(execs)
    if contains:
        out.append(mid("contains", "contains"))
        out += list(contains)
    out.append(closer(ch.pick(["end subroutine %s" % name, "end subroutine", "end", "endsubroutine %s" % name], "endsub"), "end_subroutine"))
    return out


def u_function(spec, execs, ch, name="f", contains=()):
    prefix = ch.pick(["", "real ", "integer(kind=8) ", "recursive ", "pure real ", "elemental ", "type(t1) ", "character(len=*) ", "double precision ", "real recursive ", "complex(8) pure "], "fprefix")
    suffix = ch.pick(["", " result(r)", " bind(c)", " result(r) bind(c)", " bind(c, name='cf') result(r)"], "fsuffix")
    args = ch.pick(["(x)", "()", "(x, y)"], "fargs")
    out = [opener("%sfunction %s%s%s" % (prefix, name, args, suffix), "function")]
    out += list(spec) + list(execs)
    if contains:
        out.append(mid("contains", "contains"))
        out += list(contains)
    out.append(closer(ch.pick(["end function %s" % name, "end function", "end", "endfunction %s" % name], "endfun"), "end_function"))
    return out


def u_block_data(spec, ch, name="bd"):
    named = not ch.flag("bd_unnamed")
    out = [opener("block data%s" % (" " + name if named else ""), "block_data")] + list(spec)
    out.append(closer(ch.pick(["end block data%s" % (" " + name if named else ""), "end block data", "end", "endblockdata"], "endbd"), "end_block_data"))
    return out


def strip_virtual(prog):
    """programs contain a virtual opener for anonymous main programs"""
    return [s for s in prog if s.kind != "program_anon"]


def render_prog(prog, **kw):
    ds = depths(prog)
    lines = []
    indent = kw.get("indent", 2)
    first = kw.get("first_indent", 1)
    for s, d in zip(prog, ds):
        if s.kind == "program_anon":
            continue
        lines.append(" " * (first + indent * d) + s.line())
    return "\n".join(lines) + "\n"


render = render_prog
