"""Statement templates with choice points.

Syntax inside a template string:
  << ... >>          optional part (choice 0 = absent, 1 = present)
  {{ a || b || c }}  alternatives (choice 0 = first)
Markers nest.  Everything else is literal Fortran text.
"""
import re

_TOK = re.compile(r"<<|>>|\{\{|\}\}|\|\|")


class Lit:
    __slots__ = ("s",)

    def __init__(self, s):
        self.s = s


class Opt:
    __slots__ = ("body",)

    def __init__(self, body):
        self.body = body


class Alt:
    __slots__ = ("alts",)

    def __init__(self, alts):
        self.alts = alts


def parse_template(text):
    pos = 0
    toks = []
    for m in _TOK.finditer(text):
        if m.start() > pos:
            toks.append(("lit", text[pos : m.start()]))
        toks.append((m.group(0), None))
        pos = m.end()
    if pos < len(text):
        toks.append(("lit", text[pos:]))
    idx = [0]

    def seq(stop):
        out = []
        while idx[0] < len(toks):
            k, v = toks[idx[0]]
            if k in stop:
                return out
            idx[0] += 1
            if k == "lit":
                out.append(Lit(v))
            elif k == "<<":
                body = seq((">>",))
                assert toks[idx[0]][0] == ">>", text
                idx[0] += 1
                out.append(Opt(body))
            elif k == "{{":
                alts = [seq(("||", "}}"))]
                while toks[idx[0]][0] == "||":
                    idx[0] += 1
                    alts.append(seq(("||", "}}")))
                assert toks[idx[0]][0] == "}}", text
                idx[0] += 1
                out.append(Alt(alts))
            else:
                raise ValueError("unbalanced %r in %r" % (k, text))
        return out

    res = seq(())
    assert idx[0] == len(toks), text
    return res


_cache = {}


def instantiate(text, ch, tag=""):
    """Expand a template with chooser ch; returns the Fortran text."""
    tree = _cache.get(text)
    if tree is None:
        tree = _cache[text] = parse_template(text)
    out = []

    def walk(nodes):
        for n in nodes:
            if isinstance(n, Lit):
                out.append(n.s)
            elif isinstance(n, Opt):
                if ch.choose(2, tag + "opt"):
                    walk(n.body)
            else:
                walk(n.alts[ch.choose(len(n.alts), tag + "alt")])

    walk(tree)
    s = re.sub(r"[ \t]+", " ", "".join(out)).strip()
    # template artefacts only: blanks left behind by absent optional parts
    s = re.sub(r" (?=[,)])", "", s)
    s = re.sub(r"(?<=\() ", "", s)
    return s


def n_choice_points(text):
    """Upper bound on the number of choice points in a template."""
    return len(re.findall(r"<<|\{\{", text))
