"""Model L, second half: the documented canonicalisations as named rewrite
rules applied to BOTH token streams (source by construction, regenerated
text) before comparison.  Everything not rewritten here is compared
character for character.

Token = (kind, text) as produced by mc.lexer.lex for ONE statement.
"""
import re

# words that fparser prints in its own (upper) case: language keywords and
# intrinsic procedure names used by model G.  User names in model G are never
# in this set (checked by mc.selfcheck).
KEYWORDS = set(
    """
abstract access action advance all allocatable allocate assign assignment associate asynchronous
backspace bind blank block blockdata byte call case character class close codimension common complex
concurrent contains contiguous continue convert critical cycle data deallocate decimal default deferred
delim dimension direct do double doubleprecision doublecomplex elemental else elseif elsewhere encoding end endassociate
endblock endblockdata endcritical enddo endenum endfile endforall endfunction endif endinterface
endmodule endprocedure endprogram endselect endsubmodule endsubroutine endtype endwhere entry enum
enumerator eor equivalence err errmsg error exist exit extends external file final flush fmt forall
form format formatted function generic go goto id if images implicit import impure in include inout inquire
integer intent interface intrinsic iolength iomsg iostat is kind len lock logical memory module mold
name named namelist newunit nextrec nml non_intrinsic non_overridable none nopass nullify number only open opened
operator optional out pad parameter pass pause pending pointer pos position precision print private
procedure program protected public pure read readwrite real rec recl recursive result return rewind
round save select selectcase selecttype sequence sequential sign size source stat status stop stream
submodule subroutine sync target then to type unformatted unit unlock use value volatile wait where
while write quote
""".split()
)
INTRINSICS = set(
    """
abs achar acos adjustl adjustr aimag aint all allocated anint any asin associated atan atan2 bit_size
btest ceiling char cmplx command_argument_count conjg cos cosh count cpu_time cshift date_and_time dble
digits dim dot_product dprod eoshift epsilon exp exponent extends_type_of floor fraction get_command
get_command_argument get_environment_variable huge iachar iand ibclr ibits ibset ichar ieor index int
ior is_iostat_end is_iostat_eor ishft ishftc kind lbound len len_trim lge lgt lle llt log log10 logical
matmul max maxexponent maxloc maxval merge min minexponent minloc minval mod modulo move_alloc mvbits
nearest new_line nint not null pack precision present product radix random_number random_seed range
real repeat reshape rrspacing same_type_as scale scan selected_char_kind selected_int_kind
selected_real_kind set_exponent shape sign sin sinh size spacing spread sqrt sum system_clock tan tanh
tiny transfer transpose trim ubound unpack verify
alog alog10 amax0 amax1 amin0 amin1 amod cabs ccos cexp clog csin csqrt dabs dacos dasin datan datan2 dcos
dcosh ddim dexp dint dlog dlog10 dmax1 dmin1 dmod dnint dsign dsin dsinh dsqrt dtan dtanh float iabs idim
idint idnint ifix isign max0 max1 min0 min1 sngl
""".split()
)
INTRINSICS_08 = set(
    """
acosh asinh atanh bessel_j0 bessel_j1 bessel_jn bessel_y0 bessel_y1 bessel_yn bge bgt ble blt dshiftl
dshiftr erf erfc erfc_scaled execute_command_line findloc gamma hypot iall iany image_index iparity
is_contiguous lcobound leadz log_gamma maskl maskr merge_bits norm2 num_images parity popcnt poppar
shifta shiftl shiftr storage_size this_image trailz ucobound
""".split()
)
FOLD03 = KEYWORDS | INTRINSICS
FOLD = KEYWORDS | INTRINSICS | INTRINSICS_08

_COMPOUND = {
    ("else", "if"): "elseif",
    ("else", "where"): "elsewhere",
    ("go", "to"): "goto",
    ("select", "case"): "selectcase",
    ("select", "type"): "selecttype",
    ("in", "out"): "inout",
    ("double", "precision"): "doubleprecision",
    ("double", "complex"): "doublecomplex",
    ("block", "data"): "blockdata",
    ("end", "blockdata"): "endblockdata",
    ("endblock", "data"): "endblockdata",
}
_END_WORDS = (
    "if do select where forall program module subroutine function type interface associate block "
    "critical enum submodule file procedure"
).split()
for w in _END_WORDS:
    _COMPOUND[("end", w)] = "end" + w
_TYPE_WORDS = {"integer", "real", "complex", "character", "logical", "type", "class", "doubleprecision"}

_EXP = re.compile(r"^((?:\d+\.?\d*|\.\d+))([EeDd])([+-]?\d+)(.*)$")


def _fold_num(t):
    m = _EXP.match(t)
    if m:
        return m.group(1) + m.group(2).lower() + m.group(3) + m.group(4)
    return t


def normalise(tokens, stmt_kind=None):
    """Apply the documented canonicalisations to one statement's tokens."""
    toks = []
    # rule 1: case-fold keywords / intrinsic names / dotted operators /
    # exponent letters / BOZ constants
    for i, (k, t) in enumerate(tokens):
        if k == "id":
            low = t.lower()
            if low in FOLD:
                t = low
            elif low == "c" and i >= 2 and tokens[i - 1] == ("op", "(") and tokens[i - 2][1].lower() == "bind":
                t = low  # BIND(C): the language name, not a user name
            elif low in ("b", "o", "z") and i + 1 < len(tokens) and tokens[i + 1][0] == "str":
                t = low
        elif k == "dot":
            t = t.lower()
        elif k == "num":
            t = _fold_num(t)
        elif k == "str" and i and tokens[i - 1][0] == "id" and tokens[i - 1][1].lower() in ("b", "o", "z") and re.fullmatch(r"['\"][0-9A-Fa-f]*['\"]", t):
            t = "'" + t[1:-1].lower() + "'"
        toks.append((k, t))
    # rule 2: join split compound keywords
    changed = True
    while changed:
        changed = False
        out = []
        i = 0
        while i < len(toks):
            if i + 1 < len(toks) and toks[i][0] == "id" and toks[i + 1][0] == "id":
                j = _COMPOUND.get((toks[i][1], toks[i + 1][1]))
                if j:
                    out.append(("id", j))
                    i += 2
                    changed = True
                    continue
            out.append(toks[i])
            i += 1
        toks = out
    is_format = any(k == "id" and t == "format" for k, t in toks[:2])
    first_words = [t for k, t in toks[:3] if k == "id"]
    # rule 3: optional '::' (at parenthesis depth 0 only; inside parentheses
    # '::' is two adjacent colons of a subscript triplet)
    out = []
    depth = 0
    for k, t in toks:
        if k == "op" and t in ("(", "[", "(/"):
            depth += 1
        elif k == "op" and t in (")", "]", "/)"):
            depth -= 1
        if (k, t) == ("op", "::"):
            if depth == 0:
                continue
            out.append(("op", ":"))
            out.append(("op", ":"))
            continue
        out.append((k, t))
    toks = out
    first = first_words[0] if first_words else ""
    # rule 3b: CHARACTER selector given as (KIND=k, LEN=l) is printed in the
    # order (LEN=l, KIND=k)
    toks = _char_selector_order(toks)
    # rule 4: KIND= / LEN= directly inside a type-spec parenthesis;
    # UNIT= / FMT= / NML= at the head of an I/O control list
    out = []
    stack = []  # token before each open paren
    i = 0
    while i < len(toks):
        k, t = toks[i]
        if t == "(" and k == "op":
            prev = out[-1][1] if out else ""
            stack.append(prev)
            out.append((k, t))
            i += 1
            continue
        if t == ")" and k == "op":
            if stack:
                stack.pop()
            out.append((k, t))
            i += 1
            continue
        if k == "id" and i + 1 < len(toks) and toks[i + 1] == ("op", "=") and stack:
            opener = stack[-1]
            if t in ("kind", "len") and opener in _TYPE_WORDS:
                i += 2
                continue
            if t in ("unit", "fmt", "nml") and opener in ("write", "read", "open", "close", "inquire", "rewind", "backspace", "endfile", "flush", "wait") and len(stack) == 1:
                i += 2
                continue
        out.append((k, t))
        i += 1
    toks = out
    # rule 5: empty dummy-argument / actual-argument parentheses after a
    # subroutine name or CALL
    if first_words and ("subroutine" in [t for k, t in toks if k == "id"] or first_words[0] == "call" or (len(first_words) > 1 and first_words[1] == "call")):
        out = []
        i = 0
        while i < len(toks):
            if toks[i] == ("op", "(") and i + 1 < len(toks) and toks[i + 1] == ("op", ")") and i and toks[i - 1][0] == "id":
                # only the parentheses that directly follow the designator
                # at the end of the statement or before BIND
                if i + 2 == len(toks) or toks[i + 2] == ("id", "bind"):
                    i += 2
                    continue
            out.append(toks[i])
            i += 1
        toks = out
    ids = [t for k, t in toks if k == "id"]
    # rule 5b: ENTRY name  ==  ENTRY name()
    if first == "entry":
        if len(toks) == 2:
            toks = toks + [("op", "("), ("op", ")")]
    # rule 7: optional commas / blank-common spellings in COMMON, NAMELIST,
    # DATA and the computed GO TO
    if first == "common":
        out = []
        for k, t in toks:
            if (k, t) == ("op", "//"):
                out += [("op", "/"), ("op", "/")]
            else:
                out.append((k, t))
        toks = out
        if toks[1:3] == [("op", "/"), ("op", "/")]:
            toks = toks[:1] + toks[3:]  # leading blank-common marker is optional
    if first in ("common", "namelist"):
        toks = [x for i, x in enumerate(toks) if not (x == ("op", ",") and i + 1 < len(toks) and toks[i + 1] == ("op", "/"))]
    if first == "data":
        toks = [x for i, x in enumerate(toks) if not (x == ("op", ",") and i and toks[i - 1] == ("op", "/"))]
    if first == "goto" and len(toks) > 1 and toks[1] == ("op", "("):
        toks = [x for i, x in enumerate(toks) if not (x == ("op", ",") and i and toks[i - 1] == ("op", ")"))]
    # rule 8: letter specs of IMPLICIT are case-insensitive single letters
    if first == "implicit":
        toks = [(k, t.lower() if k == "id" and len(t) == 1 else t) for k, t in toks]
    # rule 9: the suffix of a FUNCTION statement is printed RESULT first
    if "function" in ids and ("id", "bind") in toks and ("id", "result") in toks:
        toks = _suffix_order(toks)
    # rule 6: FORMAT: commas between items are optional in places and
    # edit descriptors are case-insensitive
    if is_format:
        toks = [(k, t if k == "str" else t.lower()) for k, t in toks if (k, t) != ("op", ",")]
    return toks


def _group_from(toks, i):
    """toks[i] is an id followed by '(' ; returns index after the matching ')'"""
    depth = 0
    j = i + 1
    while j < len(toks):
        if toks[j] == ("op", "("):
            depth += 1
        elif toks[j] == ("op", ")"):
            depth -= 1
            if depth == 0:
                return j + 1
        j += 1
    return len(toks)


def _suffix_order(toks):
    try:
        ib = toks.index(("id", "bind"))
        ir = toks.index(("id", "result"))
    except ValueError:
        return toks
    if ib < ir:
        eb = _group_from(toks, ib)
        er = _group_from(toks, ir)
        if eb == ir and er == len(toks):
            return toks[:ib] + toks[ir:er] + toks[ib:eb]
    return toks


def _char_selector_order(toks):
    """character ( kind = K , len = L ) -> character ( len = L , kind = K )"""
    for i, x in enumerate(toks):
        if x == ("id", "character") and i + 3 < len(toks) and toks[i + 1] == ("op", "(") and toks[i + 2] == ("id", "kind") and toks[i + 3] == ("op", "="):
            end = _group_from(toks, i)
            inner = toks[i + 2 : end - 1]
            depth = 0
            for j, y in enumerate(inner):
                if y[0] == "op" and y[1] in ("(", "["):
                    depth += 1
                elif y[0] == "op" and y[1] in (")", "]"):
                    depth -= 1
                elif y == ("op", ",") and depth == 0:
                    a, b = inner[:j], inner[j + 1 :]
                    if b[:2] == [("id", "len"), ("op", "=")]:
                        return toks[: i + 2] + b + [("op", ",")] + a + toks[end - 1 :]
                    break
            break
    return toks


def stmt_tokens(label, name, toks):
    out = []
    if label:
        out.append(("num", str(int(label))))
    if name:
        out.append(("id", name))
        out.append(("op", ":"))
    return out + list(toks)
