"""E1 - deviation-bounded choice explorer (stateless model checking of
generator o implementation).

A scenario is a function scenario(ch) that builds one case by calling
ch.choose(n, tag) wherever the model allows alternatives; alternative 0 is the
default/simplest.  explore() enumerates every choice vector with at most
`bound` non-zero choices (deviations), each exactly once: it runs a prefix,
takes 0 afterwards, records the arity of every choice point met and branches
on every alternative after the prefix whose cost still fits the bound.
bound=None means the full product.
"""


class Divergence(Exception):
    """A replayed choice vector met a different arity/tag than recorded."""


class Chooser:
    __slots__ = ("prefix", "trace")

    def __init__(self, prefix=()):
        self.prefix = tuple(prefix)
        self.trace = []  # (arity, tag, chosen)

    def choose(self, n, tag=""):
        i = len(self.trace)
        c = self.prefix[i] if i < len(self.prefix) else 0
        if n < 1 or c >= n:
            raise Divergence("choice %d: %d not < arity %d (%s)" % (i, c, n, tag))
        self.trace.append((n, tag, c))
        return c

    def flag(self, tag=""):
        return self.choose(2, tag) == 1

    def pick(self, seq, tag=""):
        return seq[self.choose(len(seq), tag)]

    @property
    def vector(self):
        v = [c for (_, _, c) in self.trace]
        while v and v[-1] == 0:
            v.pop()
        return tuple(v)

    @property
    def deviations(self):
        return sum(1 for (_, _, c) in self.trace if c)


def run(scenario, vector):
    ch = Chooser(vector)
    case = scenario(ch)
    if len(ch.trace) < len(ch.prefix):
        raise Divergence(
            "vector %r longer than the %d choice points met" % (vector, len(ch.trace))
        )
    return ch, case


def explore(scenario, bound=None, stats=None):
    """Yield (vector, chooser, case) for every choice vector with <= bound
    deviations (all vectors if bound is None).  Order: depth-first, simplest
    alternatives first.  stats (dict) receives 'decisions' = number of
    choice-point decisions taken (edges of the enumeration tree)."""
    stack = [()]
    while stack:
        prefix = stack.pop()
        ch, case = run(scenario, prefix)
        if stats is not None:
            stats["decisions"] = stats.get("decisions", 0) + len(ch.trace)
            stats["runs"] = stats.get("runs", 0) + 1
        yield ch.vector, ch, case
        used = sum(1 for c in prefix if c)
        if bound is not None and used + 1 > bound:
            continue
        new = []
        for i in range(len(prefix), len(ch.trace)):
            n = ch.trace[i][0]
            base = tuple(c for (_, _, c) in ch.trace[:i])
            for alt in range(1, n):
                new.append(base + (alt,))
        # reversed so that the simplest alternative is popped first
        stack.extend(reversed(new))


def count(scenario, bound=None):
    return sum(1 for _ in explore(scenario, bound))


def minimise(scenario, vector, still_fails):
    """Greedy delta-minimisation: zero deviations while the failure persists."""
    vec = list(vector)
    changed = True
    while changed:
        changed = False
        for i in range(len(vec)):
            if vec[i] == 0:
                continue
            trial = list(vec)
            trial[i] = 0
            while trial and trial[-1] == 0:
                trial.pop()
            try:
                ch, case = run(scenario, trial)
            except Divergence:
                continue
            if still_fails(case):
                vec = trial + [0] * 0
                changed = True
                break
    while vec and vec[-1] == 0:
        vec.pop()
    return tuple(vec)
