"""Check runner: plans tasks, runs them on a fork pool, merges results,
applies the known-findings list, confirms violations by replay, writes
evidence and replay files, prints VIOLATION / KNOWN-FINDING lines.

Exit codes: 0 property held on everything explored (known findings apart),
1 violation (VIOLATION line printed), 2 harness error (never a VIOLATION line).
"""
import os
import sys
import json
import time
import fnmatch
import argparse
import importlib
import collections
import multiprocessing as mp

VERIF = os.path.dirname(os.path.dirname(os.path.abspath(__file__)))
EVIDENCE_DIR = os.path.join(VERIF, "evidence")
REPLAY_DIR = os.path.join(VERIF, "replays")
KNOWN_FILE = os.path.join(VERIF, "known_findings.json")
NPROC = int(os.environ.get("VERIF_NPROC", "16"))


def _deep_update(dst, src):
    for k, v in src.items():
        if isinstance(v, dict) and isinstance(dst.get(k), dict):
            _deep_update(dst[k], v)
        else:
            dst[k] = v


class Result:
    """What one task (or a merged run) covered."""

    def __init__(self):
        self.evals = 0  # cases executed on the implementation and judged
        self.transitions = 0  # generator decisions / operations applied
        self.states = set()  # 64-bit hashes of distinct model configurations
        self.nontrivial = set()  # hashes of distinct non-trivial cases
        self.outcomes = collections.Counter()
        self.results = set()  # hashes of distinct observed results (trees, item lists ...)
        self.violations = []
        self.samples = []
        self.classes = set()
        self.counters = collections.Counter()
        self.sig_counts = collections.Counter()
        self.caps = []
        self.extra = {}

    KEEP_PER_SIG = 3

    def violation(self, sig, detail, case, cost=0):
        """record a violation; per signature only the KEEP_PER_SIG cheapest
        cases are kept (the rest are counted), so that a frequent known
        finding cannot swamp the result channel"""
        self.sig_counts[sig] += 1
        mine = [v for v in self.violations if v["sig"] == sig] if self.sig_counts[sig] > self.KEEP_PER_SIG else None
        v = {"sig": sig, "detail": detail, "case": case, "cost": cost}
        if mine is None:
            self.violations.append(v)
            return
        worst = max(mine, key=lambda x: x["cost"])
        if cost < worst["cost"]:
            self.violations.remove(worst)
            self.violations.append(v)

    def sample(self, s, limit=3):
        if len(self.samples) < limit:
            self.samples.append(s)

    def merge(self, other):
        self.evals += other.evals
        self.transitions += other.transitions
        self.states |= other.states
        self.nontrivial |= other.nontrivial
        self.outcomes.update(other.outcomes)
        self.results |= other.results
        self.sig_counts.update(other.sig_counts)
        for v in other.violations:
            mine = [x for x in self.violations if x["sig"] == v["sig"]]
            if len(mine) < self.KEEP_PER_SIG:
                self.violations.append(v)
            else:
                worst = max(mine, key=lambda x: x["cost"])
                if v["cost"] < worst["cost"]:
                    self.violations.remove(worst)
                    self.violations.append(v)
        for s in other.samples:
            if len(self.samples) < 12:
                self.samples.append(s)
        self.classes |= other.classes
        self.counters.update(other.counters)
        self.caps.extend(other.caps)
        for k, v in other.extra.items():
            if isinstance(v, list):
                self.extra.setdefault(k, []).extend(v)
            elif isinstance(v, dict):
                _deep_update(self.extra.setdefault(k, {}), v)
            else:
                self.extra[k] = v


_PROP = None


def _worker_run(task):
    try:
        return ("ok", _PROP.run(task))
    except BaseException as e:  # harness problem inside a worker
        import traceback

        return ("err", "%r\n%s" % (task, traceback.format_exc()))


def load_known(prop_id):
    if not os.path.exists(KNOWN_FILE):
        return []
    with open(KNOWN_FILE) as f:
        data = json.load(f)
    return [e for e in data.get("findings", []) if e.get("property") == prop_id]


def sig_matches(entry, sig):
    pats = entry.get("sig")
    if pats is None:
        return False
    if isinstance(pats, str):
        pats = [pats]
    return any(sig == pat or fnmatch.fnmatchcase(sig, pat) for pat in pats)


def write_evidence(prop, tier, seed, res, wall, nviol, known_seen, exhaustive):
    os.makedirs(EVIDENCE_DIR, exist_ok=True)
    all_classes = None
    cov = {
        "states": len(res.states),
        "transitions": int(res.transitions),
        "traces_validated_against_impl": int(res.evals),
        "samples": res.samples[:12] or ["<none>"],
        "evaluations": int(res.evals),
        "distinct_nontrivial": len(res.nontrivial),
        "rule": prop.RULE,
        "exhaustive": bool(exhaustive and not res.caps),
        "caps_hit": res.caps,
        "distinct_outcomes": max(len(res.outcomes), len(res.results)),
        "distinct_outcome_classes": len(res.outcomes),
        "distinct_observed_results": len(res.results),
        "outcome_histogram": dict(res.outcomes.most_common(40)),
        "counters": dict(res.counters),
        "known_findings_seen": known_seen,
        "bounds": getattr(prop, "BOUNDS", {}).get(tier, {}),
    }
    if res.classes:
        try:
            from mc import base

            all_classes = base.all_rule_classes()
            matched = res.classes & all_classes
            cov["rule_class_coverage"] = {
                "matched": len(matched),
                "total": len(all_classes),
                "never_matched": sorted(all_classes - matched),
            }
        except Exception:  # pragma: no cover
            pass
    cov.update(res.extra.get("coverage", {}))
    ev = {
        "property_id": prop.ID,
        "tier": tier,
        "seed": seed,
        "level": "model_checking",
        "coverage": cov,
        "assumptions": list(getattr(prop, "ASSUMPTIONS", [])),
        "wall_s": round(wall, 2),
        "violations": nviol,
    }
    path = os.path.join(EVIDENCE_DIR, "%s.json" % prop.ID)
    tmp = path + ".tmp"
    with open(tmp, "w") as f:
        json.dump(ev, f, indent=1, sort_keys=True, default=str)
        f.write("\n")
    os.replace(tmp, path)
    return path


def _ensure_env():
    """Re-exec once with a fixed hash seed so runs are reproducible."""
    if os.environ.get("PYTHONHASHSEED") != "0":
        env = dict(os.environ)
        env["PYTHONHASHSEED"] = "0"
        env["PYTHONDONTWRITEBYTECODE"] = "1"
        os.execve(sys.executable, [sys.executable] + sys.argv, env)


def _isolated_replay(prop, case):
    """replay a self-contained case in a forked child of this (pristine)
    process: what a fresh `run_check.py --replay` would see, whatever process-
    wide state earlier replays may have left behind"""
    from mc.forktree import run_isolated

    out = run_isolated(prop.replay, case)
    if isinstance(out, tuple) and out and out[0] == "HARNESS-ERROR":
        raise RuntimeError(out[1])
    return out


def main(argv=None):
    global _PROP
    ap = argparse.ArgumentParser()
    ap.add_argument("prop")
    ap.add_argument("--tier", default=os.environ.get("VERIF_TIER", "quick"))
    ap.add_argument("--replay")
    ap.add_argument("--nproc", type=int, default=NPROC)
    args = ap.parse_args(argv)
    _ensure_env()
    import faulthandler, signal

    faulthandler.register(signal.SIGUSR1, all_threads=True)  # kill -USR1 <pid> dumps the stacks
    sys.path.insert(0, VERIF)
    seed = int(os.environ.get("VERIF_SEED", "0") or 0)
    tier = args.tier if args.tier in ("quick", "thorough") else "quick"
    prop = importlib.import_module("props.%s" % args.prop)
    _PROP = prop

    if args.replay:
        with open(args.replay) as f:
            rp = json.load(f)
        vs = prop.replay(rp["case"])
        if hasattr(prop, "snippet"):
            print(prop.snippet(rp["case"]))
        if vs:
            for v in vs:
                print("REPRODUCED sig=%s\n%s" % (v["sig"], v["detail"]))
            print("VIOLATION property=%s replay=%s" % (prop.ID, args.replay))
            return 1
        print("not reproduced (property holds on this case)")
        return 0

    t0 = time.time()
    known = load_known(prop.ID)
    tasks = prop.plan(tier, seed)
    res = Result()
    errors = []
    if args.nproc <= 1 or len(tasks) <= 1:
        for t in tasks:
            st, r = _worker_run(t)
            (res.merge(r) if st == "ok" else errors.append(r))
    else:
        ctx = mp.get_context("fork")
        # FRESH_WORKER_PER_TASK: every task starts in a process forked from this
        # one, which has parsed nothing (checks about process-wide state)
        with ctx.Pool(min(args.nproc, len(tasks)), maxtasksperchild=1 if getattr(prop, "FRESH_WORKER_PER_TASK", False) else None) as pool:
            for st, r in pool.imap_unordered(_worker_run, tasks, chunksize=1):
                if st == "ok":
                    res.merge(r)
                else:
                    errors.append(r)
    if errors:
        print("HARNESS-ERROR property=%s worker failure:\n%s" % (prop.ID, errors[0]))
        return 2
    if hasattr(prop, "finish"):
        prop.finish(res, tier, seed)

    # 1. known findings: replay each listed witness first
    known_seen = []
    for e in known:
        if e.get("status") != "known":
            continue
        try:
            vs = _isolated_replay(prop, e["witness"])
        except Exception as ex:  # witness no longer replayable = harness problem
            print("HARNESS-ERROR property=%s witness %s: %r" % (prop.ID, e["id"], ex))
            return 2
        if any(sig_matches(e, v["sig"]) for v in vs):
            print("KNOWN-FINDING: property=%s %s: %s" % (prop.ID, e["id"], e["what"]))
            known_seen.append({"id": e["id"], "exploration_hits": 0})

    # 2. classify exploration violations
    by_sig = {}
    for v in sorted(
        res.violations,
        key=lambda v: (v["cost"], v["sig"], json.dumps(v["case"], sort_keys=True, default=str)),
    ):
        hit = None
        for e in known:
            if e.get("status") == "known" and sig_matches(e, v["sig"]):
                hit = e
                break
        if hit is not None:
            for ks in known_seen:
                if ks["id"] == hit["id"]:
                    ks["exploration_hits"] += 1
                    ks.setdefault("signatures", {})[v["sig"]] = res.sig_counts.get(v["sig"], 1)
                    break
            else:
                known_seen.append({"id": hit["id"], "exploration_hits": 1, "signatures": {v["sig"]: res.sig_counts.get(v["sig"], 1)}})
                print(
                    "KNOWN-FINDING: property=%s %s: %s" % (prop.ID, hit["id"], hit["what"])
                )
            continue
        by_sig.setdefault(v["sig"], []).append(v)

    # 3. confirm by replay, write replay files
    nviol = 0
    lines = []
    for sig, vs in by_sig.items():
        v = vs[0]
        try:
            again = _isolated_replay(prop, v["case"])
        except Exception as ex:
            print("HARNESS-ERROR property=%s replay raised %r for %s" % (prop.ID, ex, sig))
            return 2
        if not any(a["sig"] == sig for a in again):
            print(
                "HARNESS-ERROR property=%s violation %s did not reproduce on replay"
                % (prop.ID, sig)
            )
            print("  replay gave: %s\n  detail: %s\n  case: %s" % ([a["sig"] for a in again], v["detail"][:1500], json.dumps(v["case"], default=str)[:1500]))
            return 2
        nviol += 1
        os.makedirs(os.path.join(REPLAY_DIR, prop.ID), exist_ok=True)
        from mc.base import sha

        path = os.path.join(REPLAY_DIR, prop.ID, sha(sig) + ".json")
        with open(path, "w") as f:
            json.dump(
                {
                    "property": prop.ID,
                    "sig": sig,
                    "detail": v["detail"],
                    "case": v["case"],
                    "occurrences": res.sig_counts.get(sig, len(vs)),
                    "tier": tier,
                    "seed": seed,
                },
                f,
                indent=1,
                default=str,
            )
        lines.append((path, sig, v["detail"], res.sig_counts.get(sig, len(vs))))

    wall = time.time() - t0
    res.counters["violation_classes"] = nviol
    write_evidence(prop, tier, seed, res, wall, nviol, known_seen, getattr(prop, "EXHAUSTIVE", True))
    print(
        "%s tier=%s seed=%d cases=%d states=%d transitions=%d outcomes=%d wall=%.1fs"
        % (prop.ID, tier, seed, res.evals, len(res.states), res.transitions, max(len(res.outcomes), len(res.results)), wall)
    )
    n_out = max(len(res.outcomes), len(res.results))
    if res.evals == 0 or n_out < 2:
        print("HARNESS-ERROR property=%s vacuous run (cases=%d, outcomes=%d)" % (prop.ID, res.evals, n_out))
        return 2
    for path, sig, detail, n in lines:
        print("--- %s (%d occurrence(s))\n%s" % (sig, n, detail))
    for path, sig, detail, n in lines:
        print("VIOLATION property=%s replay=%s" % (prop.ID, path))
    return 1 if nviol else 0


if __name__ == "__main__":
    sys.exit(main())
