"""E2 - explicit-state exploration of operation histories over PROCESS-GLOBAL
state, using os.fork() as an exact snapshot: "apply op a in state h" and
"apply op b in state h" start from bit-identical process images, including
state the harness does not know about.
"""
import os
import pickle
import struct


def _read_all(fd):
    chunks = []
    while True:
        b = os.read(fd, 1 << 16)
        if not b:
            break
        chunks.append(b)
    return b"".join(chunks)


def expand(history, ops, apply_op, depth_left, stats=None):
    """Runs in a process whose state is 'after history'.  For every op forks a
    child that applies it, records the observation and recursively expands.
    `ops` is a list of operations, or a list of such lists (one per remaining
    level).  Returns a list of (history_tuple, observation)."""
    records = []
    per_level = bool(ops) and isinstance(ops[0], (list, tuple))
    here = ops[0] if per_level else ops
    below = ops[1:] if per_level else ops
    for op in here:
        r, w = os.pipe()
        pid = os.fork()
        if pid == 0:
            code = 0
            try:
                os.close(r)
                h2 = history + (op,)
                try:
                    obs = apply_op(op)
                except BaseException as e:  # harness-level failure
                    obs = ("HARNESS-ERROR", repr(e))
                recs = [(h2, obs)]
                if depth_left > 1:
                    recs += expand(h2, below, apply_op, depth_left - 1)
                data = pickle.dumps(recs, protocol=4)
                view = memoryview(data)
                off = 0
                while off < len(view):
                    off += os.write(w, view[off : off + (1 << 16)])
            except BaseException:
                code = 3
            finally:
                os._exit(code)
        os.close(w)
        data = _read_all(r)
        os.close(r)
        _, status = os.waitpid(pid, 0)
        if status != 0 or not data:
            records.append((history + (op,), ("HARNESS-ERROR", "child exited with status %r" % status)))
            continue
        records.extend(pickle.loads(data))
    return records


def run_isolated(fn, *args):
    """run fn(*args) in a forked child of the current (pristine) process and
    return its picklable result; the caller's own state is untouched."""
    r, w = os.pipe()
    pid = os.fork()
    if pid == 0:
        code = 0
        try:
            os.close(r)
            data = pickle.dumps(fn(*args), protocol=4)
            view = memoryview(data)
            off = 0
            while off < len(view):
                off += os.write(w, view[off : off + (1 << 16)])
        except BaseException:
            import traceback

            try:
                os.write(w, pickle.dumps(("HARNESS-ERROR", traceback.format_exc())))
            except BaseException:
                pass
            code = 3
        finally:
            os._exit(code)
    os.close(w)
    data = _read_all(r)
    os.close(r)
    os.waitpid(pid, 0)
    return pickle.loads(data)
