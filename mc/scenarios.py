"""Enumeration layers A-D over model G, shared by the properties that quantify
over "all generated valid programs" (C01, C02, C10, C17, C18, ...).

tasks(tier) returns small picklable descriptors; cases(task) enumerates, with
the E1 explorer, every program of that task within the task's deviation bound
and yields (case_id, vector, prog, stats).
"""
import itertools
from mc import grammar as G
from mc import explore
from mc.grammar import S, opener, closer, mid

BOUNDS = {
    "quick": dict(A_k=1, A_full_limit=64, B=[(1, 2), (2, 1), (3, 0)], C_k=0, S_k=1, D_len=2, D_k=1),
    "thorough": dict(A_k=2, A_full_limit=4096, B=[(1, 3), (2, 2), (3, 1), (4, 0)], C_k=1, S_k=2, D_len=3, D_k=1),
}

SIMPLE_SIBLINGS = [
    ("assign", "a = 1"),
    ("call", "call sub(a)"),
    ("if_stmt", "if (a > 0) b = 1"),
    ("where_stmt", "where (w > 0) w = 1"),
    ("forall_stmt", "forall (i = 1:n) a(i) = i"),
    ("goto", "goto 900"),
    ("labelled_continue", "900 continue"),
    ("write", "write(*, *) a"),
    ("format", "910 format (i3)"),
    ("data", "data d1 /1/"),
    ("ptr", "p => q"),
    ("allocate", "allocate(a(n))"),
    ("return", "return"),
    ("stop", "stop"),
    ("print", "print *, 'a;b'"),
    ("entry", "entry ent2(a)"),
]


def _sib(kind, text):
    label = None
    import re

    m = re.match(r"(\d+) (.*)", text)
    if m:
        label, text = m.group(1), m.group(2)
    return S(text, kind, label=label)


def tasks(tier):
    b = BOUNDS[tier]
    out = []
    for tid, text, ctx, std in G.templates():
        out.append(("A", tid, b["A_k"], b["A_full_limit"]))
    names = [n for n, _ in G.EXEC_CONSTRUCTS]
    for d, k in b["B"]:
        for first in names:
            out.append(("B", first, d, k))
    out.append(("C", "cc", b["C_k"]))
    out.append(("C", "cs", b["C_k"]))
    out.append(("C", "sc", b["C_k"]))
    out.append(("C", "ss", b["C_k"]))
    for host in ("module", "subroutine", "block", "program", "function"):
        for name, _ in G.SPEC_CONSTRUCTS:
            out.append(("S", host, name, b["S_k"]))
    for n in range(1, b["D_len"] + 1):
        for first in UNIT_KINDS:
            out.append(("D", first, n, b["D_k"]))
    from mc import corpus

    for pid in sorted(corpus.corpus()):
        out.append(("E", pid))
    return out


# ------------------------------------------------------------------ layer A


def _product_size(scenario, limit):
    """size of the full product if it is <= limit, else None (by counting)."""
    n = 0
    for _ in explore.explore(scenario, None):
        n += 1
        if n > limit:
            return None
    return n


def cases_A(task):
    _, tid, k, full_limit = task
    for t in G.templates():
        if t[0] == tid:
            break
    else:
        raise KeyError(tid)
    sc = G.template_scenario(*t)
    bound = k
    if _product_size(sc, full_limit) is not None:
        bound = None
    stats = {}
    for vec, ch, prog in explore.explore(sc, bound, stats):
        yield ("A/%s/%s" % (tid, ".".join(map(str, vec))), vec, prog, stats)


# ------------------------------------------------------------------ layer B


def nest_scenario(kinds):
    def scenario(ch):
        body = G.nest(kinds, ch)
        spec = [S("integer :: a, b(10), n, k1, k2, k3, k4", "decl"), S("real :: w(3)", "decl")]
        return G.sub_wrap(spec=spec, execs=body + [S("a = 0", "assign")], name="sub", args="(v)")

    return scenario


def kind_sequences(first, d):
    names = [n for n, _ in G.EXEC_CONSTRUCTS]
    if d == 1:
        yield (first,)
        return
    for rest in itertools.product(names, repeat=d - 1):
        seq = (first,) + rest
        if G.valid_nest(seq):
            yield seq


def cases_B(task):
    _, first, d, k = task
    stats = {}
    for seq in kind_sequences(first, d):
        sc = nest_scenario(seq)
        for vec, ch, prog in explore.explore(sc, k, stats):
            yield ("B/%s/%s" % ("-".join(seq), ".".join(map(str, vec))), vec, prog, stats)


# ------------------------------------------------------------------ layer C


def cases_C(task):
    _, mode, k = task
    stats = {}
    cons = [n for n, _ in G.EXEC_CONSTRUCTS]
    sims = SIMPLE_SIBLINGS

    def mk(kind_a, kind_b):
        def scenario(ch):
            parts = []
            for i, kd in enumerate((kind_a, kind_b)):
                if kd[0] == "c":
                    parts += G.EXEC_BY_NAME[kd[1]]([G.body_probe(kd[1], i + 1)], ch, i + 1)
                else:
                    parts.append(_sib(*kd[1]))
            # a target for 'goto 900' whenever it is used
            texts = [p.text for p in parts]
            extra = []
            if any(t == "goto 900" for t in texts) and not any(p.label == "900" for p in parts):
                extra = [S("continue", "continue", label="900")]
            return G.sub_wrap(execs=parts + extra, name="sub", args="(v)")

        return scenario

    A = [("c", c) for c in cons] if mode[0] == "c" else [("s", s) for s in sims]
    B = [("c", c) for c in cons] if mode[1] == "c" else [("s", s) for s in sims]
    for a in A:
        for b_ in B:
            if a[0] == "s" and b_[0] == "s" and a[1][1][:3] == b_[1][1][:3] and a[1][1][:3].isdigit():
                continue  # duplicate label
            if a == b_ and a[0] == "s" and a[1][1][:1].isdigit():
                continue
            sc = mk(a, b_)
            an = a[1] if a[0] == "c" else a[1][0]
            bn = b_[1] if b_[0] == "c" else b_[1][0]
            for vec, ch, prog in explore.explore(sc, k, stats):
                yield ("C/%s+%s/%s" % (an, bn, ".".join(map(str, vec))), vec, prog, stats)


# ------------------------------------------------------------------ layer S


def spec_scenario(host, cname):
    fn = dict(G.SPEC_CONSTRUCTS)[cname]

    def scenario(ch):
        c = fn(ch, 1)
        pre = [S("integer :: i0", "decl")]
        post = [S("real :: r0", "decl")]
        if host == "module":
            return [opener("module m", "module")] + pre + c + post + [closer("end module m", "end_module")]
        if host == "subroutine":
            return G.sub_wrap(spec=pre + c + post, execs=[S("a = 1", "assign")])
        if host == "program":
            return [opener("program p", "program")] + pre + c + post + [S("a = 1", "assign"), closer("end program p", "end_program")]
        if host == "function":
            return [opener("function f(x)", "function")] + pre + c + post + [S("f = x", "assign"), closer("end function f", "end_function")]
        if host == "block":
            blk = [opener("block", "block", std="f2008")] + pre + c + post + [S("a = 1", "assign"), closer("end block", "end_block")]
            return G.sub_wrap(execs=blk)
        raise ValueError(host)

    return scenario


def cases_S(task):
    _, host, cname, k = task
    stats = {}
    sc = spec_scenario(host, cname)
    for vec, ch, prog in explore.explore(sc, k, stats):
        yield ("S/%s/%s/%s" % (host, cname, ".".join(map(str, vec))), vec, prog, stats)


# ------------------------------------------------------------------ layer D

UNIT_KINDS = ["program", "module", "module_c", "subroutine", "function", "block_data", "submodule", "subroutine_c", "function_c", "program_c"]


def _internal(ch, i, depth=0):
    """contained subprograms for unit i."""
    v = ch.choose(3, "contained")
    out = []
    spec = [S("integer :: x", "decl")]
    if v in (0, 2):
        out += G.u_subroutine(spec, [S("x = %d" % i, "assign")], ch, name="is%d" % i)
    if v in (1, 2):
        out += G.u_function(spec, [S("if%d = x" % i, "assign")], ch, name="if%d" % i)
    return out


def unit_scenario(kinds):
    def scenario(ch):
        prog = []
        for i, kind in enumerate(kinds, 1):
            spec = [S("integer :: v%d" % i, "decl")]
            ex = [S("v%d = %d" % (i, i), "assign")]
            if kind == "program":
                prog += G.u_program(spec, ex, ch, name="p%d" % i)
            elif kind == "program_c":
                prog += G.u_program(spec, ex, ch, name="p%d" % i, contains=_internal(ch, i))
            elif kind == "module":
                prog += G.u_module(spec, ch, name="m%d" % i)
            elif kind == "module_c":
                inner = _internal(ch, i)
                if ch.flag("nested_internal"):
                    # module subprogram that itself contains an internal one
                    inner = G.u_subroutine(spec, ex, ch, name="ms%d" % i, contains=G.u_function([S("integer :: x", "decl")], [S("jf%d = x" % i, "assign")], ch, name="jf%d" % i))
                prog += G.u_module(spec, ch, name="m%d" % i, contains=inner)
            elif kind == "subroutine":
                prog += G.u_subroutine(spec, ex, ch, name="s%d" % i)
            elif kind == "subroutine_c":
                prog += G.u_subroutine(spec, ex, ch, name="s%d" % i, contains=_internal(ch, i))
            elif kind == "function":
                prog += G.u_function(spec, [S("f%d = 1" % i, "assign")], ch, name="f%d" % i)
            elif kind == "function_c":
                prog += G.u_function(spec, [S("f%d = 1" % i, "assign")], ch, name="f%d" % i, contains=_internal(ch, i))
            elif kind == "block_data":
                prog += G.u_block_data([S("common /cb%d/ v%d" % (i, i), "common"), S("integer :: v%d" % i, "decl")], ch, name="bd%d" % i)
            elif kind == "submodule":
                prog += G.u_submodule(spec, ch, name="sm%d" % i, contains=_internal(ch, i) if ch.flag("sm_contains") else ())
            else:
                raise ValueError(kind)
        return prog

    return scenario


def unit_sequences(first, n):
    if n == 1:
        yield (first,)
        return
    for rest in itertools.product(UNIT_KINDS, repeat=n - 1):
        seq = (first,) + rest
        if sum(1 for k in seq if k.startswith("program")) > 1:
            continue
        yield seq


def cases_D(task):
    _, first, n, k = task
    stats = {}
    for seq in unit_sequences(first, n):
        sc = unit_scenario(seq)
        for vec, ch, prog in explore.explore(sc, k, stats):
            # F12 (documented upstream limitation): an anonymous main program
            # is generated only as a single-unit file
            if len(seq) > 1 and any(s.kind == "program_anon" for s in prog):
                continue
            yield ("D/%s/%s" % ("-".join(seq), ".".join(map(str, vec))), vec, prog, stats)


def cases_E(task):
    from mc import corpus

    yield ("E/%s/" % task[1], (), corpus.corpus()[task[1]], {"decisions": 0})


def cases(task):
    return {"A": cases_A, "B": cases_B, "C": cases_C, "S": cases_S, "D": cases_D, "E": cases_E}[task[0]](task)


def with_comments(prog, mode=0):
    """source text with full-line comments in every statement gap (used for
    the comments-retained configuration).  mode 0: one comment per gap; mode 1:
    two comment lines per gap, in every second gap with a blank line between
    them (runs of kept lines in front of every statement)."""
    ds = G.depths(prog)
    lines = [" ! head"]
    n = 0
    for s, d in zip(prog, ds):
        if s.kind == "program_anon":
            continue
        lines.append(" " * (1 + 2 * d) + s.line())
        n += 1
        lines.append(" " * (1 + 2 * d) + "! c%d" % n)
        if mode == 1:
            if n % 2 == 0:
                lines.append("")
            lines.append(" " * (1 + 2 * d) + "! d%d it's" % n)
    return "\n".join(lines) + "\n"


def feature_tag(cid):
    """model-level feature of a case used in violation signatures: layer +
    template id / construct kinds (never the choice vector)."""
    return "/".join(cid.split("/")[:-1])


def run_task(task, check_case, sample_every=50):
    """generic task runner for properties quantifying over layers A-D"""
    from mc.runner import Result

    res = Result()
    last = None
    n = 0
    for cid, vec, prog, stats in cases(task):
        before = res.evals
        check_case(res, cid, prog, feature_tag(cid))
        last = stats
        if n % sample_every == 0:
            res.sample({"case": cid, "source": G.render(prog)})
        n += 1
    if last:
        res.transitions += last.get("decisions", 0)
    res.counters["layer_%s_cases" % task[0]] += res.evals
    res.counters["layer_%s_programs" % task[0]] += n
    return res
