"""Model R - free-form and fixed-form renderers with layout choice points,
and model S - the item stream the reader must deliver for a rendered layout.

render_free(prog, ch, opts) makes every layout decision through the chooser
(choice 0 = canonical), so the E1 explorer enumerates layouts by deviation
count.  It returns a Layout: physical lines + per-statement expectations
(tokens, label, name, first/last physical line) + the comments placed.
"""
import re
from mc import lexer
from mc.normalise import FOLD03 as FOLD  # F2008-only intrinsic names are plain names under f2003

# ---------------------------------------------------------------- tokens


class Tok:
    __slots__ = ("kind", "text", "pre")

    def __init__(self, kind, text, pre):
        self.kind = kind  # id num str dot op | label cname
        self.text = text
        self.pre = pre  # blanks before this token in the canonical text


def lex_pos(text):
    """tokens of one statement with the blanks that precede each"""
    toks = lexer.lex(text)
    out = []
    pos = 0
    for k, t in toks:
        i = text.index(t, pos)
        out.append(Tok(k, t, " " if i > pos and text[pos:i].strip() == "" and i > 0 else ""))
        pos = i + len(t)
    if out:
        out[0].pre = ""
    return out


def stmt_toks(s):
    out = []
    if s.label:
        out.append(Tok("label", s.label, ""))
    if s.name:
        out.append(Tok("cname", s.name, " " if out else ""))
        out.append(Tok("op", ":", ""))
    body = lex_pos(s.text)
    if body and out:
        body[0].pre = " "
    return out + body


def apply_case(toks, mode):
    """keyword case is layout: lower / UPPER / Mixed for words of the FOLD set,
    dotted operators and exponent letters; names and literals untouched."""
    if mode == 0:
        return toks
    out = []
    is_fmt = any(x.kind == "id" and x.text.lower() == "format" for x in toks[:2])
    has_hollerith = is_fmt and re.search(r"\d\s*[hH]", "".join(x.pre + x.text for x in toks if x.kind != "str")) is not None
    for t in toks:
        text = t.text
        if mode == 3 and is_fmt and has_hollerith:
            # Hollerith text in a FORMAT specification: left as written
            out.append(Tok(t.kind, text, t.pre))
            continue
        if mode == 3:
            # every identifier in upper case: keywords AND names (the parse
            # must be the same up to the case of names)
            if t.kind in ("id", "cname", "dot"):
                text = text.upper()
            elif t.kind == "num":
                text = text.upper()
            out.append(Tok(t.kind, text, t.pre))
            continue
        if t.kind == "id" and text.lower() in FOLD:
            text = text.upper() if mode == 1 else text[:1].upper() + text[1:].lower()
        elif t.kind == "dot":
            text = text.upper() if mode == 1 else text[:2].upper() + text[2:].lower()
        elif t.kind == "num" and mode == 1:
            m = re.match(r"^((?:\d+\.?\d*|\.\d+))([EeDd])([+-]?\d+)(.*)$", text)
            if m:
                text = m.group(1) + m.group(2).upper() + m.group(3) + m.group(4)
        out.append(Tok(t.kind, text, t.pre))
    return out


# ------------------------------------------------------------ break styles

TAILS = ["&", " &", " & ! c ' \"", "&!x"]
LEADS = ["", "&", "  &", "& "]
INDENTS = [0, 1, 4]
BETWEEN = [[], [""], ["! cmt in cont"], ["  ! c1 'q", "", "! c2 & \""]]

# representative styles for the quick tier (every tail, lead, indent and
# between value occurs at least once); thorough uses the full product
STYLES_QUICK = [
    (0, 0, 1, 0),
    (1, 1, 1, 0),
    (0, 1, 0, 0),
    (1, 2, 2, 0),
    (2, 0, 1, 0),
    (3, 3, 0, 0),
    (1, 0, 1, 1),
    (1, 1, 0, 2),
    (0, 2, 1, 3),
    (2, 1, 2, 2),
]
STYLES_FULL = [(a, b, c, d) for d in range(len(BETWEEN)) for a in range(len(TAILS)) for b in range(len(LEADS)) for c in range(len(INDENTS))]
# inside a character literal: '&' directly, leading '&' mandatory
LIT_STYLES = [(0, 1, 0, 0), (0, 2, 1, 0), (0, 1, 2, 1), (0, 2, 0, 2), (0, 1, 1, 3)]

STMT_COMMENTS = ["! c", "!", "! it's \"q\"", "! a & b", "! x ! y"]


def _d(x):
    return x.text if x.kind == "op" else (x.text.lower() if x.kind == "id" and x.text.lower() in FOLD else x.kind)


def _breakable(toks, j, is_format):
    """may blanks / a line break be placed between toks[j-1] and toks[j]?
    Not inside what the standard regards as ONE lexical token although
    lexer L splits it: kind-prefixed and BOZ literals; and, conservatively,
    only next to ',', '(' or ')' inside FORMAT specifications."""
    a, b = toks[j - 1], toks[j]
    if b.kind == "str" and a.kind == "id" and (a.text.endswith("_") or a.text.lower() in ("b", "o", "z")):
        return False
    if is_format and j >= 2:
        ok = lambda x: x.kind == "op" and x.text in (",", "(", ")")
        if not (ok(a) or ok(b)) and not a.text.lower() == "format":
            return False
    return True


class Expect:
    """what the reader must deliver for one statement"""

    __slots__ = ("tokens", "label", "name", "first", "last", "stmt")

    def __init__(self, tokens, label, name, first, last, stmt):
        self.tokens = tokens
        self.label = label
        self.name = name
        self.first = first
        self.last = last
        self.stmt = stmt


class Layout:
    def __init__(self):
        self.lines = []
        self.expect = []  # Expect per statement, in order
        self.comments = []  # (text, line, after_stmt_index or None) in delivery order
        self.features = set()

    @property
    def text(self):
        return "\n".join(self.lines) + "\n"


def _expect_tokens(toks):
    return [(t.kind, t.text) for t in toks if t.kind not in ("label", "cname") and not (t.kind == "op" and t.text == ":" and False)]


def render_free(prog, ch, opts=None):
    """opts: styles (list), lit_breaks (bool), gaps (bool), trailing (bool),
    joins (bool), indents (bool), case (bool), semicolon_start (bool)"""
    opts = opts or {}
    styles = opts.get("styles", STYLES_QUICK)
    lay = Layout()
    from mc import corpus

    ds = corpus.depths(prog)
    case_mode = ch.choose(4, "case") if opts.get("case", True) else 0
    if case_mode:
        lay.features.add("case%d" % case_mode)
    base_indent = ch.pick([1, 0, 2, 4], "indent")  # first statement stays in columns 1-5 (C05: otherwise the text is, legitimately, fixed form) if opts.get("indents", True) else 1
    pending_join = None  # text of a line being built by ';' joins
    stmts = [s for s in prog if s.kind != "program_anon"]
    dss = [d for s, d in zip(prog, ds) if s.kind != "program_anon"]
    i = 0
    n = len(stmts)
    only = opts.get("only")
    base_opts = opts
    while i < n:
        s = stmts[i]
        toks = apply_case(stmt_toks(s), case_mode)
        ind = " " * (base_indent + 2 * dss[i])
        # deviations may be confined to some statements ('only'): the others
        # are rendered canonically without meeting any choice point
        if only is not None and i not in only:
            opts = {"gaps": False, "trailing": False, "joins": False, "lit_breaks": False, "no_breaks": True}
        else:
            opts = base_opts
        # gap before the statement
        if opts.get("gaps", True):
            g = ch.choose(4, "gap")
            if g == 1:
                lay.lines.append("")
            elif g == 2:
                lay.lines.append(ind + "! gap comment")
                lay.comments.append(("! gap comment", len(lay.lines), None))
            elif g == 3:
                lay.lines.append("!gap0")
                lay.comments.append(("!gap0", len(lay.lines), None))
                lay.lines.append("   ")
            if g:
                lay.features.add("gap")
        # body tokens (after label / construct name) carry the expectation
        body = [t for t in toks]
        label = int(s.label) if s.label else None
        cur = ind
        first_line = len(lay.lines) + 1
        inner_comments = []
        started = False
        is_format = any(x.kind == "id" and x.text.lower() == "format" for x in toks[:2])
        for j, t in enumerate(toks):
            if j > 0:
                # boundary between toks[j-1] and toks[j]
                if opts.get("no_breaks") or not _breakable(toks, j, is_format):
                    cur += t.pre + t.text
                    continue
                b = ch.choose(2 + len(styles), "brk")
                if b == 1:
                    # extra blanks between two tokens (no line break)
                    lay.features.add("blanks:%s|%s" % (_d(toks[j - 1]), _d(t)))
                    cur += "   "
                elif b:
                    tail, lead, indent, between = styles[b - 2]
                    lay.features.add("brk:%s|%s" % (_d(toks[j - 1]), _d(t)))
                    if BETWEEN[between]:
                        lay.features.add("between%d" % between)
                    tl = TAILS[tail]
                    # two name/number-like tokens must stay separated by a
                    # blank: '&' directly after one and a leading '&' (or
                    # column 1) directly before the other would fuse them
                    needs = toks[j - 1].kind in ("id", "num", "label", "cname") and t.kind in ("id", "num", "cname")
                    supplies = tl.startswith(" ") or (LEADS[lead] == "" and INDENTS[indent] > 0) or LEADS[lead].endswith(" ")
                    if needs and not supplies:
                        tl = " " + tl
                    lay.lines.append(cur + tl)
                    if "!" in tl:
                        inner_comments.append((tl[tl.index("!") :], len(lay.lines)))
                    for bl in BETWEEN[between]:
                        lay.lines.append(bl)
                        if bl.strip():
                            inner_comments.append((bl.strip(), len(lay.lines)))
                    cur = " " * INDENTS[indent] + LEADS[lead]
                    if LEADS[lead] == "" and t.pre == "" and INDENTS[indent] == 0:
                        pass
                else:
                    cur += t.pre
            # the token itself, possibly broken inside a character literal
            if t.kind == "str" and opts.get("lit_breaks", True) and len(t.text) > 2:
                text = t.text
                pos_choice = ch.choose(len(text), "litpos")  # 0 = no break; k = break before char k
                if pos_choice:
                    st = ch.choose(len(LIT_STYLES), "litstyle")
                    tail, lead, indent, between = LIT_STYLES[st]
                    lay.features.add("lit-break")
                    lay.lines.append(cur + text[:pos_choice] + "&")
                    for bl in BETWEEN[between]:
                        lay.lines.append(bl)
                        if bl.strip():
                            inner_comments.append((bl.strip(), len(lay.lines)))
                    rest = text[pos_choice:]
                    # a second break further on: the line in between lies
                    # wholly inside the literal
                    pos2 = ch.choose(len(rest), "litpos2") if len(rest) > 2 else 0
                    if pos2:
                        lay.features.add("lit-break2")
                        lay.lines.append(" " * INDENTS[indent] + "&" + rest[:pos2] + "&")
                        rest = rest[pos2:]
                    cur = " " * INDENTS[indent] + "&" + rest
                else:
                    cur += text
            else:
                cur += t.text
        # trailing comment
        tc = None
        if opts.get("trailing", True):
            c = ch.choose(1 + len(STMT_COMMENTS), "trail")
            if c:
                tc = STMT_COMMENTS[c - 1]
                lay.features.add("trailing")
        # ';' join with the next statement
        join = False
        if opts.get("joins", True) and i + 1 < n and tc is None and not stmts[i + 1].label and (only is None or i + 1 in only):
            join = ch.flag("join")
        last_line = len(lay.lines) + 1
        exp_tokens = [(t.kind, t.text) for t in stmt_toks(s) if t.kind not in ("label", "cname")]
        if s.name:
            exp_tokens = exp_tokens[1:]  # drop the ':' after the construct name
        ex = Expect(exp_tokens, label, s.name, first_line, last_line, s)
        if join:
            lay.features.add("join")
            lay.expect.append(ex)
            sep = ch.pick(["; ", ";", " ; ", ";; ", "; ; "], "joinsep")
            j = i + 1
            while True:
                nxt = stmts[j]
                ntoks = apply_case(stmt_toks(nxt), case_mode)
                ntext = "".join(t.pre + t.text for t in ntoks)
                cur = cur + sep + ntext
                ntk = [(t.kind, t.text) for t in stmt_toks(nxt) if t.kind not in ("label", "cname")]
                if nxt.name:
                    ntk = ntk[1:]
                # every part of a ';'-joined logical line carries that line's span
                lay.expect.append(Expect(ntk, None, nxt.name, first_line, last_line, nxt))
                j += 1
                # a chain of more than two statements on one line
                if j < n and not stmts[j].label and (only is None or j in only) and ch.flag("join-more"):
                    lay.features.add("join-chain")
                    continue
                break
            lay.lines.append(cur)
            for ctext, cl in inner_comments:
                lay.comments.append((ctext, cl, len(lay.expect) - 1))
            i = j
            continue
        # a ';' (or two) after the last statement of a line separates nothing
        tsemi = ch.choose(3, "trailsemi") if opts.get("joins", True) else 0
        if tsemi:
            cur = cur + [";", " ; ;"][tsemi - 1]
            lay.features.add("trailing-semicolon")
        if tc is not None:
            cur = cur + " " + tc
        lay.lines.append(cur)
        lay.expect.append(ex)
        # comments inside the statement's span are delivered after it, in
        # source order; a trailing comment on the last line comes last
        for ctext, cl in inner_comments:
            lay.comments.append((ctext, cl, len(lay.expect) - 1))
        if tc is not None:
            lay.comments.append((tc, last_line, len(lay.expect) - 1))
        i += 1
    return lay


def canonical_text(prog):
    from mc import corpus

    return corpus.render(prog)


# ===================================================================== fixed

CONT_MARKS = ["&", "1", "+", "x", "$", "9", "!", "*", "c", ".", "#", "'", ";", "-", "C"]
FIX_COMMENTS = ["C comment", "c", "* star ' \"", "! bang & more", "C     x = 1", "Cglued text", "cset up", "CCCCCC", "Call setup(n)", "*****", "c-----"]


def _fits(prefix, pieces):
    return len(prefix + "".join(pieces)) <= 72


def render_fixed(prog, ch, opts=None):
    """Fixed-form rendering with choice points: label alignment, indentation
    after column 6, forced wrap width, an extra wrap at any token boundary,
    continuation mark, comment lines (C c * !) in gaps and between
    continuation lines, trailing '!' comments, a character literal cut exactly
    at column 72, '0' in column 6 of an initial line."""
    opts = opts or {}
    from mc import corpus

    lay = Layout()
    ds = corpus.depths(prog)
    stmts = [s for s in prog if s.kind != "program_anon"]
    dss = [d for s, d in zip(prog, ds) if s.kind != "program_anon"]
    width = ch.pick([72, 40, 26], "wrapwidth")  # last usable column
    if width != 72:
        lay.features.add("wrap%d" % width)
    mark = ch.pick(CONT_MARKS, "mark")
    if mark != "&":
        lay.features.add("mark:" + mark)
    label_right = ch.flag("label_right")
    step = ch.pick([2, 0], "fixindent")
    only = opts.get("only")

    class _Fixed:
        """chooser stand-in for statements outside 'only': always default"""

        def choose(self, n, tag=""):
            return 0

        def flag(self, tag=""):
            return False

        def pick(self, seq, tag=""):
            return seq[0]

    real_ch = ch
    for i, s in enumerate(stmts):
        ch = real_ch if (only is None or i in only) else _Fixed()
        toks = stmt_toks(s)
        label = int(s.label) if s.label else None
        body = [t for t in toks if t.kind != "label"]
        if body:
            body[0].pre = ""
        g = ch.choose(1 + len(FIX_COMMENTS) + 2, "fgap")
        if g == 1:
            lay.lines.append("")
            lay.features.add("gap")
        elif g == len(FIX_COMMENTS) + 2:
            lay.lines.append("        ")  # a line of blanks (not an empty line)
            lay.features.add("gap-blanks")
        elif g > 1:
            c = FIX_COMMENTS[g - 2]
            lay.lines.append(c)
            lay.comments.append((c, len(lay.lines), None))
            lay.features.add("gapcomment:" + c[0])
        lab = ""
        if s.label:
            lab = s.label.rjust(5) if label_right else s.label.ljust(5)
        col6 = " "
        if ch.flag("col6zero"):
            col6 = "0"
            lay.features.add("col6zero")
        ind = " " * min(step * dss[i], 20)
        cur = lab.ljust(5) + col6 + ind
        first_line = len(lay.lines) + 1
        inner_comments = []
        # literal cut at column 72: choose a literal char position
        for j, t in enumerate(body):
            piece = t.pre + t.text if j else t.text
            forced = len(cur) + len(piece) > width and len(cur) > 6 + len(ind)
            extra = False
            if j > 0 and not forced and _breakable(body, j, False):
                extra = ch.flag("fwrap")
            lit_cut = 0
            if t.kind == "str" and len(t.text) > 2 and opts.get("lit_cuts", True) and (j == 0 or _breakable(body, j, False)):
                lit_cut = ch.choose(min(len(t.text), 60), "fcut")  # cut before char k of the literal (k < 60: the head must fit on one line)
            if forced or extra:
                if extra:
                    lay.features.add("wrap:%s|%s" % (_d(body[j - 1]), _d(t)))
                lay.lines.append(cur)
                bc = ch.choose(1 + len(FIX_COMMENTS) + 2, "fbetween")
                if bc > len(FIX_COMMENTS):
                    # an empty line / a line of blanks between the lines of a statement
                    lay.lines.append("" if bc == len(FIX_COMMENTS) + 1 else "   ")
                    lay.features.add("between:empty" if bc == len(FIX_COMMENTS) + 1 else "between:blanks")
                elif bc:
                    c = FIX_COMMENTS[bc - 1]
                    lay.lines.append(c)
                    inner_comments.append((c, len(lay.lines)))
                    lay.features.add("between:" + c[0])
                cur = "     " + mark + ind
                # blanks at the start of a continuation line are harmless
                # between tokens; keep the separating blank if there was one
                piece = t.pre + t.text
            if lit_cut:
                # pad so that the first lit_cut characters of the literal end
                # exactly in column 72
                head = piece[: len(piece) - len(t.text)] + t.text[:lit_cut]
                if len(cur) + len(head) > 72:
                    # does not fit on this line: wrap first at this boundary
                    lay.lines.append(cur)
                    cur = "     " + mark
                    head = t.text[:lit_cut]
                    piece = t.text
                pad = 72 - (len(cur) + len(head))
                # the padding goes in front of the token (outside the literal)
                lay.lines.append(cur + " " * pad + head)
                assert len(lay.lines[-1]) == 72
                lay.features.add("litcut")
                if t.text[lit_cut - 1] == " ":
                    lay.features.add("litcut-blank-in-col72")
                if t.text[lit_cut - 1] == "&":
                    lay.features.add("litcut-amp-in-col72")
                cur = "     " + mark + t.text[lit_cut:]
                while len(cur) > 72:
                    # the rest of the literal is longer than a line: cut at
                    # column 72 again (a line wholly inside the literal)
                    lay.lines.append(cur[:72])
                    lay.features.add("litcut2")
                    if cur[71] == " ":
                        lay.features.add("litcut-blank-in-col72")
                    if cur[71] == "&":
                        lay.features.add("litcut-amp-in-col72")
                    cur = "     " + mark + cur[72:]
            else:
                cur += piece
        tc = None
        if ch.flag("ftrail"):
            tc = "! trailing"
            lay.features.add("trailing")
        last_line = len(lay.lines) + 1
        lay.lines.append(cur + (" " + tc if tc else ""))
        exp_tokens = [(t.kind, t.text) for t in stmt_toks(s) if t.kind not in ("label", "cname")]
        if s.name:
            exp_tokens = exp_tokens[1:]
        lay.expect.append(Expect(exp_tokens, label, s.name, first_line, last_line, s))
        for ctext, cl in inner_comments:
            lay.comments.append((ctext, cl, len(lay.expect) - 1))
        if tc:
            lay.comments.append((tc, last_line, len(lay.expect) - 1))
    return lay



# ------------------------------------------------------------- focus programs
# Small programs around one feature-rich statement; the layout space of that
# statement is explored with more simultaneous deviations than is affordable
# for whole corpus programs.

STYLES_FOCUS = [(0, 0, 1, 0), (2, 1, 1, 0), (1, 1, 0, 2), (1, 0, 1, 1), (0, 2, 2, 3)]


def focus_programs():
    """list of (name, prog, focus statement indices)"""
    from mc.grammar import S, opener, closer

    def wrap(stmts):
        return [opener("subroutine s(a, b)", "subroutine")] + stmts + [closer("end subroutine s", "end_subroutine")]

    out = []
    texts = [
        ("lit-bang-quote", "s = 'abcd' // 'e!f' // \"g'h\""),
        ("write-lits", "write(*, '(a, a)') \"it's\", 'x & y'"),
        ("if-stmt-lit", "if (a > 0) b = 'c;d'"),
        ("call-lit", "call sub(a, 'p''q', b=1)"),
        ("expr-mixed", "x = a(i) + 1.0e-3 * f(y, 'q')"),
        ("decl-init", "character(len=3) :: c = 'a!b'"),
        ("two-lits", "t = \"a\"\"b\" // 'c''d!'"),
    ]
    for name, t in texts:
        out.append((name, wrap([S(t, "focus")]), {1}))
    out.append(("label-name-do", wrap([opener("do i = 1, n", "do", label="10", name="nm"), S("a = 'x!'", "assign"), closer("end do nm", "end_do")]), {1, 2}))
    out.append(("two-stmts", wrap([S("a = 'p!q'", "assign"), S("b = \"r's\" // 't'", "assign")]), {1, 2}))
    out.append(("long-lit", wrap([S("s = '" + "abcdefghi!" * 10 + "'", "focus")]), {1}))
    out.append(("format-scale", wrap([S("format (1x, 1pe12.4, 2p f8.3, 0pg10.3e2, i5, es9.2)", "format", label="100")]), {1}))
    # labels written with leading zeros (not significant: 0010 is label 10)
    out.append(("zero-labels", wrap([S("a = 1", "assign", label="0010"), S("if (a > 0) b = 'p q'", "focus", label="020"), S("continue", "continue", label="00030")]), {1, 2, 3}))
    # the same literal / exponent constant twice inside ONE parenthesised group (joined by ';' the text is rebuilt by one map application)
    out.append(("dup-in-group", wrap([S("call put('a b', 'a b')", "focus"), S("z = f(1.0e-3, 1.0e-3)", "focus"), S("k = 1", "assign")]), {1, 2, 3}))
    out.append(("named-if-chain", wrap([S("a = 1", "assign"), opener("if (a > 0) then", "if_then", name="chk"), S("b = 2", "assign"), closer("end if chk", "end_if"), S("c = 3", "assign")]), {1, 2, 3, 4, 5}))
    return out
