"""Model L - an independent free-form Fortran token splitter.

lex(text) splits ONE logical statement (no continuation marks, no comment)
into tokens (kind, text) with kind in
  id   identifier / keyword
  num  numeric literal (integer/real with exponent and kind suffix), BOZ body
       is lexed as 'str' with its prefix letter as 'id'
  str  character literal including delimiters (and doubled delimiters)
  dot  .op. / .true. / .false.
  op   operators and punctuation
It knows nothing about fparser.
"""
import re

_ID = re.compile(r"[A-Za-z_$][A-Za-z0-9_$]*")
_DOT = re.compile(r"\.[A-Za-z]+\.")
_NUM = re.compile(
    r"""
    (?: \d+ \. \d* | \. \d+ | \d+ )      # mantissa
    (?: [EeDdQq] [+-]? \d+ )?            # exponent
    (?: _ [A-Za-z0-9_]+ )?               # kind
    """,
    re.X,
)
_INT = re.compile(r"\d+")
_OPS = [
    "(/",
    "/)",
    "**",
    "//",
    "==",
    "/=",
    "<=",
    ">=",
    "=>",
    "::",
    "(",
    ")",
    "[",
    "]",
    ",",
    "=",
    "+",
    "-",
    "*",
    "/",
    "<",
    ">",
    "%",
    ":",
    ";",
    "&",
    "#",
    "\\",
    "@",
    "?",
    "~",
    "^",
    "{",
    "}",
    "|",
    "`",
]


class LexError(Exception):
    pass


def lex(text):
    toks = []
    i = 0
    n = len(text)
    while i < n:
        c = text[i]
        if c in " \t":
            i += 1
            continue
        if c in "'\"":
            j = i + 1
            while True:
                k = text.find(c, j)
                if k == -1:
                    raise LexError("unterminated literal in %r" % text)
                if k + 1 < n and text[k + 1] == c:
                    j = k + 2
                    continue
                break
            toks.append(("str", text[i : k + 1]))
            i = k + 1
            continue
        if c == ".":
            m = _DOT.match(text, i)
            # ".5" etc. handled by _NUM; ".e." style operators by _DOT
            if m and not (i + 1 < n and text[i + 1].isdigit()):
                toks.append(("dot", m.group(0)))
                i = m.end()
                continue
        if c.isdigit() or (c == "." and i + 1 < n and text[i + 1].isdigit()):
            m = _NUM.match(text, i)
            s = m.group(0)
            # "1.eq.2" / "1.and." : the dot belongs to the operator
            mi = _INT.match(text, i)
            e = mi.end() if mi else i
            if mi and e < n and text[e] == "." and _DOT.match(text, e):
                # but "1.e5" and "1.d0" are reals: only when what follows the
                # dot is letters+dot and not an exponent
                md = _DOT.match(text, e)
                word = md.group(0)[1:-1].lower()
                if not re.fullmatch(r"[edq]\d*", word):
                    s = mi.group(0)
                    mk = re.compile(r"_[A-Za-z0-9_]+").match(text, e)
                    toks.append(("num", s))
                    i = e
                    continue
            toks.append(("num", s))
            i = i + len(s)
            continue
        m = _ID.match(text, i)
        if m:
            s = m.group(0)
            # kind-prefixed character literal  ck_'abc'
            if s.endswith("_") and m.end() < n and text[m.end()] in "'\"":
                toks.append(("id", s))
                i = m.end()
                continue
            toks.append(("id", s))
            i = m.end()
            continue
        for op in _OPS:
            if text.startswith(op, i):
                # "(/" is an array-constructor bracket only when not "(/=" ...
                if op == "(/" and text.startswith("(/=", i):
                    continue
                if op == "/)" and False:
                    continue
                toks.append(("op", op))
                i += len(op)
                break
        else:
            if c == ".":
                toks.append(("op", "."))
                i += 1
                continue
            raise LexError("cannot lex %r at %d in %r" % (c, i, text))
    return toks


def needs_blank(a, b):
    """Must tokens a, b be separated by a blank when rendered adjacently?"""
    ka, ta = a
    kb, tb = b
    if ka in ("id", "num") and kb in ("id", "num"):
        return True
    if ka == "num" and kb == "dot":
        return ta.isdigit() is False and False
    return False


def render(tokens, sep=" "):
    """Render a token list back to text with single blanks between tokens
    where required for re-lexing (and `sep` everywhere else if given)."""
    out = []
    for i, t in enumerate(tokens):
        if i:
            out.append(sep if sep else (" " if needs_blank(tokens[i - 1], t) else ""))
        out.append(t[1])
    return "".join(out)


def split_label(text):
    """'10 continue' -> ('10', 'continue'); no label -> (None, text)."""
    m = re.match(r"\s*(\d+)\s+(?=\S)", text)
    if m:
        return m.group(1), text[m.end() :]
    return None, text.strip()
