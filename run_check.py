#!/venv/bin/python
"""Entry point: run_check.py C0x --tier quick|thorough [--replay file]"""
import os
import sys

sys.path.insert(0, os.path.dirname(os.path.abspath(__file__)))
from mc.runner import main

if __name__ == "__main__":
    sys.exit(main())
