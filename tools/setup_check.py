"""setup_cmd: nothing to build; verify that the toolchain the checks need is present."""
import os, sys, json
ok = True
for p in ("/repo/src/fparser/__init__.py", "/root/.vp/EVIDENCE.schema.json", "/verif/known_findings.json"):
    if not os.path.exists(p):
        print("missing", p); ok = False
sys.path.insert(0, "/verif")
from mc import base  # imports fparser from /repo/src
os.makedirs("/verif/evidence", exist_ok=True)
print("setup ok: fparser from", base.fparser.__file__)
sys.exit(0 if ok else 1)
