"""tools/add_finding.py '<json entry>' - append an entry to known_findings.json"""
import json, sys
p = "/verif/known_findings.json"
d = json.load(open(p))
e = json.loads(sys.argv[1])
d["findings"] = [x for x in d["findings"] if x["id"] != e["id"]] + [e]
json.dump(d, open(p, "w"), indent=1)
print(len(d["findings"]), "entries")
