"""Generate MANIFEST.json from the table below (keeps it valid at all times)."""
import json, os, sys
VERIF = os.path.dirname(os.path.dirname(os.path.abspath(__file__)))
sys.path.insert(0, VERIF)
from tools.manifest_table import CHECKS, NOT_BUILT

def main():
    checks = []
    for pid, (technique, text, note, ref) in sorted(CHECKS.items()):
        checks.append({
            "property_id": pid,
            "quick_cmd": "/venv/bin/python /verif/run_check.py %s --tier quick" % pid,
            "thorough_cmd": "/venv/bin/python /verif/run_check.py %s --tier thorough" % pid,
            "evidence_file": "/verif/evidence/%s.json" % pid,
            "replay_cmd_template": "/venv/bin/python /verif/run_check.py %s --replay {path}" % pid,
            "engine": "mc",
            "level_claimed": {"category": "model_checking", "text": text, "design_ref": ref},
            "level_note": note,
            "technique": technique,
        })
    man = {
        "version": 1,
        "setup_cmd": "/venv/bin/python /verif/tools/setup_check.py",
        "hooks": {
            "guard": "FPARSER_VERIF",
            "enable": "no source hooks are needed: checks import fparser from /repo/src (FPARSER_SRC) and observe through public attributes",
            "baseline_off_cmd": "cd /repo && /venv/bin/python -m pytest -ra -q -p no:cacheprovider --timeout=900 --continue-on-collection-errors",
            "source_commits": [],
            "add_only": True,
        },
        "engines": [{
            "name": "mc",
            "path": "/verif/mc",
            "serves_properties": sorted(CHECKS),
            "kind_free_text": "hand-written bounded-exhaustive explorers in Python: E1 deviation-bounded choice explorer over generator o implementation, E2 explicit-state search over real reader / process-global parser state (fork snapshots), E3 size-indexed families; reference models G/X/R/L/S/H/T",
        }],
        "checks": checks,
        "notes": "All checks execute the real fparser code from /repo/src on every enumerated case; see DESIGN.md.",
        "not_applicable": [{"property_id": p, "reason": r} for p, r in sorted(NOT_BUILT.items())],
    }
    with open(os.path.join(VERIF, "MANIFEST.json"), "w") as f:
        json.dump(man, f, indent=1)
        f.write("\n")

if __name__ == "__main__":
    main()
