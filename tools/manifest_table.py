"""One row per claimed property: technique, level text, level note, DESIGN ref."""
_NOTE = ("trusted base: the reference models in /verif/mc (generator G, lexer L, layout R); "
         "the bound stated in the evidence file; CPython semantics")
CHECKS = {
    "C01": ("bounded-exhaustive enumeration (deviation-bounded choice exploration) of generated programs, each executed on the real parser",
            "every program of model G within the stated deviation/depth bounds is parsed, printed, re-parsed and re-printed under both standards and both comment settings; no sampling",
            _NOTE, "DESIGN.md 4/C01"),
}
NOT_BUILT = {("C%02d" % i): "check not built yet in this round (planned, see DESIGN.md section 4)" for i in range(1, 21) if ("C%02d" % i) not in CHECKS}
