"""One row per claimed property: technique, level text, level note, DESIGN ref."""
_NOTE = ("trusted base: the reference models in /verif/mc (generator G, lexer L, layout R); "
         "the bound stated in the evidence file; CPython semantics")
CHECKS = {
    "C01": ("bounded-exhaustive enumeration (deviation-bounded choice exploration) of generated programs, each executed on the real parser",
            "every program of model G within the stated deviation/depth bounds is parsed, printed, re-parsed and re-printed under both standards and both comment settings; no sampling",
            _NOTE, "DESIGN.md 4/C01"),
    "C02": ("bounded-exhaustive enumeration of generated programs; independent lexer + named canonicalisation rules, token-by-token comparison",
            "for every program of model G within the bounds the regenerated text carries exactly the source's token sequence (names, literals, labels character for character) up to the canonicalisation rules listed in mc/normalise.py",
            _NOTE + "; the canonicalisation rule list (DESIGN.md 4/C02)", "DESIGN.md 4/C02"),
    "C04": ("bounded-exhaustive enumeration of layouts (deviation-bounded choice exploration over the layout model) of generated programs, reader items compared with a stream model and trees with the canonical layout's tree",
            "for every corpus and template program every layout within the deviation bound (continuation at every token boundary x style, breaks inside every character literal, extra blanks, comment/blank lines, trailing comments, ';' joins, indentation, keyword case) gives the reader items the model predicts and the same parse tree as the canonical layout",
            _NOTE, "DESIGN.md 4/C04"),
    "C05": ("bounded-exhaustive enumeration of fixed-form renderings (deviation-bounded choice exploration over the fixed-form layout model), compared with the free-form parse and a stream model",
            "every fixed-form rendering within the deviation bound is detected as fixed, delivers the model's items and parses to the free-form tree; every free rendering starting in columns 1-5 is detected as free",
            _NOTE, "DESIGN.md 4/C05"),
    "C12": ("explicit-state search over reader get/put/commit operation sequences on the real reader objects against a stream model, plus bounded-exhaustive layout enumeration for the delivered items",
            "all operation sequences up to the length bound on a catalogue of streams covering every buffer interaction are executed step by step against model S (object identity after put-back, drained remainder); all layouts within the deviation bound deliver exactly the model's items with exact spans",
            _NOTE, "DESIGN.md 4/C12"),
    "C10": ("bounded-exhaustive enumeration of generated programs; structural invariants evaluated on every node of every tree (first parse and re-parse)",
            "every tree produced for model G within the bounds (both standards, comments kept/dropped, plus backtracking-heavy inputs) satisfies the parent/children/get_root/walk invariants on every node",
            _NOTE, "DESIGN.md 4/C10"),
    "C17": ("bounded-exhaustive enumeration of generated F2003 and F2008-only programs, each parsed under both standards",
            "every F2003 program of model G regenerates to the same text under both parsers; every F2008-only program (incl. each F2008-only construct in every construct context of depth <= 2) is rejected by f2003 and accepted by f2008",
            _NOTE + "; which programs are F2008-only is decided by the model", "DESIGN.md 4/C17"),
    "C18": ("bounded-exhaustive enumeration of generated programs; deepcopy and pickle round trip of every tree",
            "every tree of model G (comments dropped / kept / directives processed, plus a CPP/include corpus) is deep-copied and pickled; text, structure, well-formedness, node disjointness and mutation independence are checked",
            _NOTE, "DESIGN.md 4/C18"),
}
NOT_BUILT = {("C%02d" % i): "check not built yet in this round (planned, see DESIGN.md section 4)" for i in range(1, 21) if ("C%02d" % i) not in CHECKS}
