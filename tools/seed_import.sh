#!/bin/bash
# tools/seed_import.sh C04 [suffix]  - copy a sub-agent's deliverables into /verif/seeded/<id>/
p=$1; n=${2:-1}; d=/verif/seeded/$p-$n
mkdir -p $d
cp /tmp/wt/out/$p/patch.diff /tmp/wt/out/$p/demo.py $d/
cp /tmp/wt/out/$p/NOTES.md $d/NOTES.md 2>/dev/null
# make the demo location-independent (it runs with PYTHONPATH set by the caller)
python3 - <<PY
import json,re
notes=open("$d/NOTES.md").read() if __import__("os").path.exists("$d/NOTES.md") else ""
json.dump({"property":"$p","source":"independent sub-agent given only the property text and a scratch worktree","needs_to_manifest":"see NOTES.md","what_was_run":"tools/seed_eval.py (scratch worktree: patch applies, repository suite, demo with/without; then /repo + quick check, undone)"}, open("$d/meta.json","w"), indent=1)
PY
echo $d
