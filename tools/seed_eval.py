#!/venv/bin/python
"""Evaluate seeded changes: tools/seed_eval.py <seed-dir> [checks...]

1. confirm in a scratch worktree (outside /repo and /verif) that the patch applies,
   the repository's own suite still passes, and demo.py fails with / passes without it;
2. apply the patch to /repo, run the named checks (default: the seed's property) with
   the quick tier, record exit codes / VIOLATION lines, and undo it straight afterwards.
Writes <seed-dir>/result.json.  Never commits anything in /repo.
"""
import json, os, subprocess, sys, tempfile, shutil, time

def sh(cmd, **kw):
    return subprocess.run(cmd, shell=True, capture_output=True, text=True, **kw)

def main():
    seed = os.path.abspath(sys.argv[1])
    meta = json.load(open(os.path.join(seed, "meta.json")))
    checks = sys.argv[2:] or [meta["property"]]
    patch = os.path.join(seed, "patch.diff")
    demo = os.path.join(seed, "demo.py")
    res = {"seed": os.path.basename(seed), "property": meta["property"]}
    old = os.path.join(seed, "result.json")
    if os.path.exists(old):
        prev = json.load(open(old))
        for k in ("applies", "demo_without", "demo_with", "suite_with_patch"):
            if k in prev:
                res[k] = prev[k]
        res["checks_history"] = prev.get("checks_history", []) + ([prev["checks"]] if prev.get("checks") else [])
    assert sh("git -C /repo status --porcelain").stdout.strip() == "", "/repo not clean"
    if "--skip-confirm" not in sys.argv and "demo_with" not in res:
        wt = tempfile.mkdtemp(prefix="seedwt_", dir="/tmp")
        shutil.rmtree(wt)
        try:
            assert sh("git -C /repo worktree add -q %s HEAD" % wt).returncode == 0
            env = dict(os.environ, PYTHONPATH=wt + "/src")
            r0 = sh("/venv/bin/python %s" % demo, cwd=wt, env=env)
            a = sh("git -C %s apply %s" % (wt, patch))
            res["applies"] = a.returncode == 0
            r1 = sh("/venv/bin/python %s" % demo, cwd=wt, env=env)
            t = sh("/venv/bin/python -m pytest -q -p no:cacheprovider --timeout=900 -n 8 src/fparser 2>&1 | tail -1", cwd=wt, env=env)
            res["demo_without"] = r0.returncode
            res["demo_with"] = r1.returncode
            res["suite_with_patch"] = t.stdout.strip()
        finally:
            sh("git -C /repo worktree remove --force %s" % wt)
    checks = [c for c in checks if not c.startswith("--")]
    res["checks"] = {}
    try:
        assert sh("git -C /repo apply %s" % patch).returncode == 0, "patch does not apply to /repo"
        for c in checks:
            t0 = time.time()
            r = sh("/venv/bin/python /verif/run_check.py %s --tier quick" % c, cwd="/verif")
            viol = [l for l in r.stdout.splitlines() if l.startswith("VIOLATION")]
            sigs = [l[4:] for l in r.stdout.splitlines() if l.startswith("--- ")]
            res["checks"][c] = {"exit": r.returncode, "violation_lines": len(viol), "first_sigs": sigs[:5], "harness_error": "HARNESS-ERROR" in r.stdout, "wall_s": round(time.time() - t0, 1)}
    finally:
        sh("git -C /repo checkout -- .")
        assert sh("git -C /repo status --porcelain").stdout.strip() == ""
    json.dump(res, open(os.path.join(seed, "result.json"), "w"), indent=1)
    print(json.dumps(res, indent=1))

if __name__ == "__main__":
    main()
