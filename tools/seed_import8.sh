#!/bin/bash
# tools/seed_import6.sh C04  - import a round-8 sub-agent deliverable as seeded/<id>-8
p=$1; d=/verif/seeded/$p-8
mkdir -p $d
cp /tmp/wt/out8/$p/patch.diff /tmp/wt/out8/$p/demo.py $d/
cp /tmp/wt/out8/$p/NOTES.md $d/NOTES.md 2>/dev/null
python3 - <<PY
import json
json.dump({"property":"$p","round":8,"source":"independent sub-agent given only the property text, a scratch worktree and one-paragraph summaries of the six earlier changes to avoid","needs_to_manifest":"see NOTES.md","what_was_run":"tools/seed_eval.py (scratch worktree: patch applies, repository suite, demo with/without; then /repo + quick check, undone)"}, open("$d/meta.json","w"), indent=1)
PY
echo $d
