"""Triage model G's templates against the current tree: every 1-deviation
instance of every template under both standards; print what is rejected."""
import sys
sys.path.insert(0, "/verif")
from mc import base, grammar, explore
from mc.base import try_parse, canon, text_of

bound = int(sys.argv[1]) if len(sys.argv) > 1 else 1
bad = 0
n = 0
for tid, text, ctx, std in grammar.templates(include_never=True):
    sc = grammar.template_scenario(tid, text, ctx, std)
    for vec, ch, prog in explore.explore(sc, bound):
        src = grammar.render(prog)
        for pstd in base.STDS:
            n += 1
            o = try_parse(src, pstd)
            expect_ok = (std in ("f2003", "f2003x")) or (std in ("f2008", "f2008x") and pstd == "f2008")
            if std == "never":
                expect_ok = False
            msg = None
            if o.ok != expect_ok:
                if std == "f2008x" and pstd == "f2003":
                    continue
                msg = "expected %s got %s" % ("ok" if expect_ok else "reject", o.klass())
            elif o.ok:
                t1 = text_of(o.tree)
                o2 = try_parse(t1 + "\n", pstd)
                if not o2.ok:
                    msg = "reparse failed %s" % o2.klass()
                elif canon(o2.tree) != canon(o.tree):
                    msg = "reparse differs"
                elif text_of(o2.tree) != t1:
                    msg = "reprint differs"
            if msg:
                bad += 1
                probe = [s.line() for s in prog if "probe" in s.tags]
                print("%s %s %s %s | %s" % (tid, pstd, vec, msg, " ;; ".join(probe)))
print("checked", n, "bad", bad)
