#!/bin/bash
# run every quick (or $1) check, print one line per check
tier=${1:-quick}
for i in $(seq -w 1 20); do
  p=C$i
  s=$(date +%s)
  out=$(/venv/bin/python /verif/run_check.py $p --tier $tier 2>&1 | grep -v conda)
  rc=${PIPESTATUS[0]}
  e=$(( $(date +%s) - s ))
  echo "$p rc=$(echo "$out" | grep -c '^VIOLATION') harness=$(echo "$out" | grep -c HARNESS) known=$(echo "$out" | grep -c '^KNOWN-FINDING') ${e}s | $(echo "$out" | grep "^$p tier" | cut -c1-110)"
done
