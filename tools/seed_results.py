"""tools/seed_results.py - regenerate seeded/RESULTS.md from seeded/*/meta.json + result.json"""
import glob, json, os

ROOT = "/verif/seeded"
HEAD = """# Seeded changes: which check catches which change

Every change was produced by an independent sub-agent (property text + scratch worktree only; round 2 additionally got a one-paragraph summary of the round-1 change, rounds 3-8 of all earlier changes, to be avoided), confirmed in a scratch worktree (patch applies, repository suite passes with it: `2939 passed, 23 xfailed, 2 xpassed`, `demo.py` exits 1 with / 0 without it) and then run against the quick tier of the property's check with the patch applied to /repo (undone afterwards). `first` = exit code of the check as it was when the change arrived, `now` = after strengthening (1 = VIOLATION reported).

| seed | property | first | now | first violation signature now | also caught by | what it needs to manifest |
|---|---|---|---|---|---|---|
"""
FOOT = open(os.path.join(os.path.dirname(__file__), "seed_results_foot.md")).read()

rows = []
for d in sorted(glob.glob(ROOT + "/C??-?")):
    seed = os.path.basename(d)
    meta = json.load(open(d + "/meta.json"))
    res = json.load(open(d + "/result.json")) if os.path.exists(d + "/result.json") else {}
    prop = meta["property"]
    hist = res.get("checks_history") or []
    first = hist[0].get(prop, {}).get("exit") if hist else res.get("checks", {}).get(prop, {}).get("exit")
    if "first_exit" in meta:
        first = meta["first_exit"]
    now = res.get("checks", {}).get(prop, {})
    sig = (now.get("first_sigs") or ["-"])[0].split(" (")[0]
    also = sorted(set(k for k, v in res.get("checks", {}).items() if k != prop and v.get("exit") == 1) | set(meta.get("also_caught_by", [])))
    rows.append("| %s | %s | %s | %s | `%s` | %s | %s |" % (seed, prop, first, now.get("exit"), sig, ", ".join(also) or "-", meta.get("needs_to_manifest", "").replace("|", "\\|").replace("\n", " ")))
open(ROOT + "/RESULTS.md", "w").write(HEAD + "\n".join(rows) + "\n\n" + FOOT)
miss = [r for r in rows if "| 1 | `" not in r]
print(len(rows), "rows;", len(miss), "not caught now")
for r in miss:
    print("  ", r[:80])
